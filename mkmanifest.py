#!/usr/bin/env python3
"""Regenerates MANIFEST.json from checks.json (claimed properties) and props_meta.json (texts)."""
import json, os
V = os.path.dirname(os.path.abspath(__file__))
checks = json.load(open(os.path.join(V, "checks.json")))
meta = json.load(open(os.path.join(V, "props_meta.json")))
props = [json.loads(l) for l in open(os.path.join(V, "properties.jsonl"))]
man = {
    "version": 1,
    "setup_cmd": "cd /verif/engine && GOFLAGS=-mod=mod GOPROXY=off GOSUMDB=off GOTOOLCHAIN=local go build -o /verif/bin/symgo .",
    "hooks": {
        "guard": "verif",
        "enable": "no source hooks: harnesses (/verif/harness), the harness runtime (/verif/verifrt) and the sequential models of syncsaga/timebank (/verif/models) are injected as virtual files through go/packages Overlay (symbolic run) and `go test -overlay` (native replay); /repo is never modified by a check",
        "baseline_off_cmd": "cd /repo && GOFLAGS=-mod=mod GOPROXY=off GOSUMDB=off go test -vet=off -count=1 -timeout 25m ./...",
        "source_commits": [],
        "add_only": True,
    },
    "engines": [{
        "name": "symgo", "path": "/verif/engine",
        "serves_properties": sorted(checks.keys()),
        "kind_free_text": "bounded symbolic executor for Go written for this task: go/ssa (x/tools v0.29.0) of /repo's current tree -> guarded, merging BMC-style execution (loops unrolled with unwinding checks, calls inlined, global heap with guarded stores, small-domain integers kept propositional) -> SMT-LIB2 -> z3 5.1.0 (one-shot queries after (reset)); counterexamples are replayed natively with go test -overlay",
    }],
    "checks": [],
    "not_applicable": [],
    "notes": "Every check: ./check <id> quick|thorough. Exit 0 = held on everything explored (KNOWN-FINDING lines for entries of known_findings.json), 1 = VIOLATION (replayed natively), 2 = machinery failure (NOT-ENCODED, solver unknown, unwinding bound hit, vacuous harness, counterexample that does not replay). See DESIGN.md.",
}
for p in props:
    pid = p["id"]
    if pid in checks:
        m = meta.get(pid, {})
        man["checks"].append({
            "property_id": pid,
            "quick_cmd": "./check %s quick" % pid,
            "thorough_cmd": "./check %s thorough" % pid,
            "evidence_file": "/verif/evidence/%s.json" % pid,
            "replay_cmd_template": "cat {path}/README  # contains the exact go test -overlay command and the witness",
            "engine": "symgo",
            "level_claimed": {
                "category": "model_checking",
                "text": m.get("level_text", "bounded symbolic model checking of the real Go code: every verification condition is decided by the SMT solver for all inputs inside the stated bounds"),
                "design_ref": "DESIGN.md section 4, " + pid,
            },
            "level_note": m.get("level_note", "trusted: symgo's SSA semantics (validated by conformance runs), the environment stubs listed in the evidence, z3 5.1.0; bounds as listed in checks.json"),
            "technique": m.get("technique", "solver-based checking of the real code: SSA -> SMT bounded symbolic execution (symgo + z3), one-step inductive lemmas from arbitrary invariant states, native replay of counterexamples"),
        })
    else:
        man["not_applicable"].append({"property_id": pid, "reason": meta.get(pid, {}).get("na_reason", "check under construction in this session: no solver-decided obligation registered yet, so the property is not claimed")})
json.dump(man, open(os.path.join(V, "MANIFEST.json"), "w"), indent=1)
print("claimed:", [c["property_id"] for c in man["checks"]])
