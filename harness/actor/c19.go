package actor

// C19 — auto-play for an unresponsive player never volunteers chips.

import (
	"encoding/json"
	"time"

	"github.com/weedbox/pokertable"
	"github.com/weedbox/pokertable/internal/verifrt"
)

func VH_C19_AutoPlay() {
	m := verifrt.Cfg("m")
	t, gi := vhRunnerTable(m)
	pr := NewPlayerRunner(vhPIDs[0])
	ad := &vhAdapter{}
	a := NewActor()
	a.SetAdapter(ad)
	a.SetRunner(pr)
	pr.timebank.ModelSetDeferred(true)
	pr.status = PlayerStatus(verifrt.IntRange("prStatus", 0, 2))
	pr.idleCount = verifrt.IntRange("idleCount", 0, 3)
	pr.suspendThreshold = verifrt.IntRange("suspendThreshold", 1, 3)
	pr.lastGameStateTime = verifrt.Int64("lastSeen")
	pr.curGameID = vhPick("curGame", []string{"g1", "g0"}) // the last hand the runner saw: this one or an earlier one
	suspended := pr.status == PlayerStatus_Suspend

	gs := t.State.GameState
	fresh := gs == nil || pr.lastGameStateTime < gs.UpdatedAt
	seated := t.State.PlayerStates[0].PlayerID == vhPIDs[0]
	var allowed []string
	if gs != nil && gi >= 0 {
		allowed = gs.Players[gi].AllowedActions
	}
	asked := fresh && seated && t.State.Status == pokertable.TableStateStatus_TableGamePlaying && gs != nil && gi >= 0 && len(allowed) > 0
	event := ""
	if gs != nil {
		event = gs.Status.CurrentEvent
	}

	// the property speaks about hand states in which the player is asked to act: a
	// snapshot with status playing always carries a hand state here (DESIGN.md, C19)
	verifrt.Assume(t.State.Status != pokertable.TableStateStatus_TableGamePlaying || gs != nil)

	// an earlier request's countdown may still be pending (nothing cancels it when the
	// player acted himself): its closure belongs to the old state
	oldFired := 0
	if verifrt.Bool("pendingCountdown") {
		pr.timebank.NewTask(time.Duration(verifrt.IntRange("oldDuration", 1, 3))*time.Second, func(isCancelled bool) {
			if !isCancelled {
				oldFired++
			}
		})
	}
	armed0 := pr.timebank.ModelArmedCount()

	err := ad.UpdateTableState(t)
	verifrt.Assert(err == nil, "runner accepts the snapshot")
	if gs != nil {
		// step lemma for several deliveries: every view is remembered, so an older view
		// arriving later is recognised as stale
		verifrt.Assert(pr.curGameID == gs.GameID && pr.lastGameStateTime >= gs.UpdatedAt, "the runner remembers the newest view it was shown")
	}

	// the conservative choice for this state
	expect := func() (string, int64) {
		switch {
		case vhHas(allowed, "ready"):
			return "ready", 0
		case vhHas(allowed, "check"):
			return "check", 0
		case vhHas(allowed, "fold"):
			return "fold", 0
		case event == "AnteRequested":
			return "pay", gs.Meta.Ante
		case event == "BlindsRequested":
			if gs.HasPosition(gi, "sb") {
				return "pay", gs.Meta.Blind.SB
			} else if gs.HasPosition(gi, "bb") {
				return "pay", gs.Meta.Blind.BB
			}
			return "pay", gs.Meta.Blind.Dealer
		}
		return "", 0
	}
	checkAuto := func(from int) {
		k, chips := expect()
		if k == "" {
			verifrt.Assert(len(ad.calls) == from, "nothing conservative to do: no move")
			return
		}
		verifrt.Assert(len(ad.calls) == from+1, "auto-play submits exactly one move")
		c := ad.calls[from]
		verifrt.Assert(c.id == vhPIDs[0], "auto-play acts for its own player")
		verifrt.Assert(c.kind != "call" && c.kind != "bet" && c.kind != "raise" && c.kind != "allin", "auto-play never calls, bets, raises or moves all-in")
		verifrt.Assert(c.kind == k, "auto-play prefers ready, then check, then fold, then the mandatory payment")
		if k == "pay" {
			verifrt.Assert(c.chips == chips, "auto-play pays exactly the posted ante / blind of its position")
		}
	}

	if !asked {
		verifrt.Reach("not asked")
		verifrt.Assert(len(ad.calls) == 0 && pr.timebank.ModelArmedCount() == armed0, "not asked: no move and no new timer")
	} else if vhHas(allowed, "pass") {
		verifrt.Reach("pass")
		verifrt.Assert(len(ad.calls) == 1 && ad.calls[0].kind == "pass" && ad.calls[0].id == vhPIDs[0], "pass is submitted at once when it is allowed")
		verifrt.Assert(pr.timebank.ModelArmedCount() == armed0, "pass: no new timer")
	} else if suspended {
		verifrt.Reach("suspended")
		verifrt.Assert(pr.timebank.ModelArmedCount() == armed0, "suspended: no new timer")
		checkAuto(0)
	} else {
		verifrt.Reach("waiting")
		if t.Meta.ActionTime != 0 {
			verifrt.Assert(len(ad.calls) == 0, "nothing is submitted before the thinking time has elapsed")
			verifrt.Assert(pr.timebank.ModelArmed() && pr.timebank.ModelArmedCount() == armed0+1 && pr.timebank.ModelDuration() == time.Duration(t.Meta.ActionTime)*time.Second, "a new timer is armed with exactly the action time (a pending older countdown is replaced)")
			if verifrt.Bool("cancel") {
				pr.timebank.Cancel()
				verifrt.Assert(len(ad.calls) == 0 && !pr.timebank.ModelArmed(), "cancelled timer: no move")
			} else {
				if verifrt.Bool("laterView") {
					// while the countdown runs another view arrives that does not ask the player anew: a
					// late duplicate of an older state, or a newer state in which it is somebody else's
					// turn. The countdown goes on and still decides on the state the request was made for.
					raw, _ := json.Marshal(t)
					var t2 pokertable.Table
					verifrt.Assert(json.Unmarshal(raw, &t2) == nil, "snapshot copies")
					g2 := t2.State.GameState
					g2.UpdatedAt = verifrt.Int64("updatedAt2")
					g2.Status.CurrentEvent = vhEvents[verifrt.IntRange("event2", 0, len(vhEvents)-1)]
					g2.Players[gi].AllowedActions = vhShapes[verifrt.IntRange("shape2", 0, len(vhShapes)-1)]
					verifrt.Assume(g2.UpdatedAt <= gs.UpdatedAt || len(g2.Players[gi].AllowedActions) == 0)
					armed1 := pr.timebank.ModelArmedCount()
					verifrt.Assert(ad.UpdateTableState(&t2) == nil, "later view accepted")
					verifrt.Assert(len(ad.calls) == 0 && pr.timebank.ModelArmed() && pr.timebank.ModelArmedCount() == armed1, "a view that does not ask the player anew neither acts nor restarts the countdown")
				}
				fired := pr.timebank.ModelFire()
				verifrt.Assert(fired, "timer fires")
				checkAuto(0)
				verifrt.Assert(!pr.timebank.ModelFire(), "the timer fires once")
				verifrt.Assert(oldFired == 0, "the replaced countdown never acts")
			}
		} else {
			// zero action time: the time bank runs the task at once
			checkAuto(0)
		}
	}
	verifrt.Reach("end")
}
