package actor

// C20 — observers never see hidden cards; each actor gets its own copy.

import (
	"github.com/weedbox/pokerface"
	"github.com/weedbox/pokertable"
	"github.com/weedbox/pokertable/internal/verifrt"
)

var vhStatuses = []pokertable.TableStateStatus{
	pokertable.TableStateStatus_TableCreated, pokertable.TableStateStatus_TablePausing, pokertable.TableStateStatus_TableRestoring,
	pokertable.TableStateStatus_TableBalancing, pokertable.TableStateStatus_TableClosed, pokertable.TableStateStatus_TableGameOpened,
	pokertable.TableStateStatus_TableGamePlaying, pokertable.TableStateStatus_TableGameSettled, pokertable.TableStateStatus_TableGameStandby,
}

var vhEvents = []string{"Started", "Initialized", "Prepared", "AnteRequested", "AntePaid", "BlindsRequested",
	"BlindsPaid", "ReadyRequested", "Readiness", "PreflopRoundEntered", "FlopRoundEntered", "TurnRoundEntered",
	"RiverRoundEntered", "RoundInitialized", "RoundPrepared", "RoundStarted", "RoundClosed", "GameCompleted",
	"SettlementRequested", "SettlementCompleted", "GameClosed"}

var vhPIDs = []string{"p0", "p1", "p2", "p3", "p4", "p5"}

// vhTableWithHand: a table snapshot as the engine may emit it: any status, with
// or without a hand state; the hand state carries deck, burned cards, hole cards
// and hand strengths.
func vhTableWithHand(m int) *pokertable.Table {
	t := &pokertable.Table{ID: "T", State: &pokertable.TableState{
		Status:            vhStatuses[verifrt.IntRange("status", 0, len(vhStatuses)-1)],
		PlayerStates:      []*pokertable.TablePlayerState{},
		GamePlayerIndexes: []int{},
		SeatMap:           []int{},
		BlindState:        &pokertable.TableBlindState{Level: 1},
	}}
	for i := 0; i < m; i++ {
		t.State.PlayerStates = append(t.State.PlayerStates, &pokertable.TablePlayerState{PlayerID: vhPIDs[i], Seat: i, Bankroll: verifrt.Int64I("bankroll", i), Positions: []string{}})
		t.State.GamePlayerIndexes = append(t.State.GamePlayerIndexes, i)
	}
	if verifrt.Bool("hasHand") {
		gs := &pokerface.GameState{GameID: "g1"}
		gs.Meta.Deck = []string{"S2", "S3", "S4"}
		gs.Status.Burned = []string{"H2"}
		gs.Status.Board = []string{"D2", "D3", "D4"}
		gs.Status.CurrentEvent = vhEvents[verifrt.IntRange("event", 0, len(vhEvents)-1)]
		for i := 0; i < m; i++ {
			p := &pokerface.PlayerState{Idx: i, Fold: verifrt.BoolI("fold", i), HoleCards: []string{"C" + vhPIDs[i], "D" + vhPIDs[i]},
				Combination: &pokerface.CombinationInfo{Type: "pair", Power: verifrt.IntI("power", i), Cards: []string{"C" + vhPIDs[i]}}}
			gs.Players = append(gs.Players, p)
		}
		t.State.GameState = gs
	}
	return t
}

// vhShowsHidden: the snapshot shows something a non-system observer must not see.
func vhShowsHidden(x *pokertable.Table, m int) bool {
	if x == nil || x.State == nil || x.State.GameState == nil {
		return false
	}
	gs := x.State.GameState
	if len(gs.Meta.Deck) > 0 || len(gs.Status.Burned) > 0 {
		return true
	}
	closed := gs.Status.CurrentEvent == "GameClosed"
	for i := 0; i < m && i < len(gs.Players); i++ {
		p := gs.Players[i]
		if (!closed || p.Fold) && (len(p.HoleCards) > 0 || p.Combination != nil) {
			return true
		}
	}
	return false
}

// VH_C20_Observer: what a non-system observer is shown, for every snapshot.
func VH_C20_Observer() {
	m := verifrt.Cfg("m")
	t := vhTableWithHand(m)
	// the mode may be switched at any time: before the earlier deliveries (system0), before the
	// delivery under test (system) and afterwards (system2); whatever the listener is handed
	// while the observer is *not* in system mode must be filtered — a switch included
	system0 := verifrt.Bool("system0")
	mode := system0
	leak := false
	obr := NewObserverRunner()
	obr.EnabledSystemMode(system0)
	var seen *pokertable.Table
	calls := 0
	obr.OnTableStateUpdated(func(x *pokertable.Table) {
		seen = x
		calls++
		if !mode && vhShowsHidden(x, m) {
			leak = true
		}
	})
	// other observers exist in the same process, configured before or after this one, in
	// either mode: what they are set to is their own business
	if verifrt.Bool("otherObserver") {
		other := NewObserverRunner()
		other.EnabledSystemMode(verifrt.Bool("otherSystem"))
	}

	// the runner may have been shown snapshots before: an earlier copy of the very same hand
	// state (only the table around it changed: a reservation, a join, an extension ...), or
	// an earlier state of the hand
	switch verifrt.IntRange("history", 0, 2) {
	case 1:
		t0 := vhTableWithHand(m)
		t0.UpdateSerial = t.UpdateSerial - 1
		verifrt.Assert(obr.UpdateTableState(t0) == nil, "earlier snapshot accepted")
	case 2:
		t0 := vhTableWithHand(m)
		if t0.State.GameState != nil {
			t0.State.GameState.Status.CurrentEvent = vhEvents[verifrt.IntRange("event0", 0, len(vhEvents)-1)]
			t0.State.GameState.UpdatedAt = verifrt.Int64("updatedAt0")
		}
		verifrt.Assert(obr.UpdateTableState(t0) == nil, "earlier snapshot accepted")
	}
	system := system0
	if verifrt.Bool("switchBefore") { // a switch is an event of its own: it may or may not happen
		system = verifrt.Bool("system")
		mode = system
		obr.EnabledSystemMode(system)
	}
	calls = 0
	err := obr.UpdateTableState(t)

	verifrt.Assert(err == nil && calls == 1 && seen == t, "observer callback receives the snapshot once")
	gs := seen.State.GameState
	if gs != nil {
		if system {
			verifrt.Reach("system mode")
			verifrt.Assert(len(gs.Meta.Deck) == 3 && len(gs.Status.Burned) == 1, "system mode sees everything")
			for i := 0; i < m; i++ {
				verifrt.Assert(len(gs.Players[i].HoleCards) == 2 && gs.Players[i].Combination != nil, "system mode sees everything")
			}
		} else {
			verifrt.Reach("observer with hand")
			verifrt.Assert(len(gs.Meta.Deck) == 0, "observer is never shown the deck")
			verifrt.Assert(len(gs.Status.Burned) == 0, "observer is never shown the burned cards")
			closed := gs.Status.CurrentEvent == "GameClosed"
			for i := 0; i < m; i++ {
				p := gs.Players[i]
				if !closed || p.Fold {
					verifrt.Assert(len(p.HoleCards) == 0 && p.Combination == nil, "no hole cards / hand strength while the hand is in play, nor of folded players afterwards")
				}
			}
		}
	}
	if verifrt.Bool("switchAfter") {
		system2 := verifrt.Bool("system2")
		mode = system2
		obr.EnabledSystemMode(system2)
	}
	verifrt.Assert(!leak, "whatever the listener is handed while the observer is not in system mode is filtered (mode switches included)")
	verifrt.Reach("end")
}

// VH_C20_Isolation: every actor gets an independent copy; what the observer
// hides is invisible to the engine and to the other actors.
func VH_C20_Isolation() {
	m := verifrt.Cfg("m")
	engineTable := vhTableWithHand(m)
	snap := verifrt.Snapshot(engineTable)

	// actor 1: a non-system observer; actor 2: a system observer (sees everything it is given)
	var seen1, seen2 *pokertable.Table
	mk := func(system bool, sink **pokertable.Table, runnerFirst bool) *tableEngineAdapter {
		a := NewActor()
		// the adapter is built with the engine's live table, as the engine's users do
		ad := NewTableEngineAdapter(nil, engineTable)
		obr := NewObserverRunner()
		obr.EnabledSystemMode(system)
		obr.OnTableStateUpdated(func(x *pokertable.Table) { *sink = x })
		// either wiring order (a spectator may be attached while a hand is in play)
		if runnerFirst {
			a.SetRunner(obr)
			a.SetAdapter(ad)
		} else {
			a.SetAdapter(ad)
			a.SetRunner(obr)
		}
		return ad
	}
	ad1 := mk(false, &seen1, verifrt.Bool("runnerFirst1"))
	ad2 := mk(true, &seen2, verifrt.Bool("runnerFirst2"))
	verifrt.Assert(verifrt.SameState(snap, engineTable), "wiring an actor leaves the engine's table as it was")
	verifrt.Assert(seen1 != engineTable && seen2 != engineTable, "wiring never hands the engine's own table object to a runner")
	if seen1 != nil {
		verifrt.Assert(verifrt.Disjoint(seen1, engineTable), "whatever a runner is shown while being wired shares no memory with the engine's table")
	}
	first := verifrt.Bool("observerFirst")
	var e1, e2 error
	if first {
		e1 = ad1.UpdateTableState(engineTable)
		e2 = ad2.UpdateTableState(engineTable)
	} else {
		e2 = ad2.UpdateTableState(engineTable)
		e1 = ad1.UpdateTableState(engineTable)
	}
	verifrt.Assert(e1 == nil && e2 == nil && seen1 != nil && seen2 != nil, "both actors are updated")
	verifrt.Assert(seen1 != engineTable && seen2 != engineTable && seen1 != seen2, "each actor gets its own table object")
	verifrt.Assert(verifrt.Disjoint(seen1, engineTable), "observer's copy shares no memory with the engine's table")
	verifrt.Assert(verifrt.Disjoint(seen2, engineTable), "second actor's copy shares no memory with the engine's table")
	verifrt.Assert(verifrt.Disjoint(seen1, seen2), "actors' copies share no memory with each other")
	verifrt.Assert(verifrt.SameState(snap, engineTable), "engine's table is unchanged by what the observer hides")
	verifrt.Assert(verifrt.SameState(snap, seen2), "the other actor still sees the full snapshot")
	if seen1.State.GameState != nil {
		verifrt.Assert(len(seen1.State.GameState.Meta.Deck) == 0 && len(seen1.State.GameState.Status.Burned) == 0, "the non-system observer's copy is filtered whatever the other actor's mode is")
	}
	verifrt.Reach("end")
}
