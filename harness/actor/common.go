package actor

// Shared harness pieces for the runner properties (C18, C19).

import (
	"time"

	"github.com/weedbox/pokerface"
	"github.com/weedbox/pokertable"
	"github.com/weedbox/pokertable/internal/verifrt"
)

type vhAdCall struct {
	kind  string
	id    string
	chips int64
}

// vhAdapter records what a runner submits; game index and hand state come from
// the table copy it was last given, as in the real adapter.
type vhAdapter struct {
	actor Actor
	table *pokertable.Table
	calls []vhAdCall
}

func (a *vhAdapter) rec(kind, id string, chips int64) error {
	a.calls = append(a.calls, vhAdCall{kind, id, chips})
	return nil
}
func (a *vhAdapter) SetActor(x Actor) { a.actor = x }
func (a *vhAdapter) UpdateTableState(t *pokertable.Table) error {
	a.table = t
	return a.actor.UpdateTableState(t)
}
func (a *vhAdapter) GetGamePlayerIndex(playerID string) int { return a.table.GamePlayerIndex(playerID) }
func (a *vhAdapter) GetGameState() *pokerface.GameState      { return a.table.State.GameState }
func (a *vhAdapter) Pass(id string) error                    { return a.rec("pass", id, 0) }
func (a *vhAdapter) Ready(id string) error                   { return a.rec("ready", id, 0) }
func (a *vhAdapter) Pay(id string, chips int64) error        { return a.rec("pay", id, chips) }
func (a *vhAdapter) Check(id string) error                   { return a.rec("check", id, 0) }
func (a *vhAdapter) Bet(id string, chips int64) error        { return a.rec("bet", id, chips) }
func (a *vhAdapter) Call(id string) error                    { return a.rec("call", id, 0) }
func (a *vhAdapter) Fold(id string) error                    { return a.rec("fold", id, 0) }
func (a *vhAdapter) Allin(id string) error                   { return a.rec("allin", id, 0) }
func (a *vhAdapter) Raise(id string, level int64) error      { return a.rec("raise", id, level) }
func (a *vhAdapter) ExtendTime(id string, d time.Duration) error { return nil }

var vhShapes = [][]string{
	{},
	{"pass"},
	{"allin", "fold"},
	{"allin", "fold", "call"},
	{"allin", "fold", "call", "raise"},
	{"allin", "check"},
	{"allin", "check", "bet"},
	{"allin", "check", "raise"},
	{"ready"},
	{"pay"},
}

var vhPosSets = [][]string{{}, {"dealer"}, {"sb"}, {"bb"}, {"dealer", "sb"}, {"ug"}}

func vhHas(xs []string, s string) bool {
	for _, x := range xs {
		if x == s {
			return true
		}
	}
	return false
}

// vhRunnerTable: a table snapshot for a runner whose player is vhPIDs[0]: any
// status, the player seated or not, dealt in or not; the hand state asks the
// player for one of the allowed-action sets the hand engine / game.go produce.
func vhRunnerTable(m int) (*pokertable.Table, int) {
	n := m + 1
	t := &pokertable.Table{ID: "T", State: &pokertable.TableState{
		Status:            vhStatuses[verifrt.IntRange("status", 0, len(vhStatuses)-1)],
		PlayerStates:      []*pokertable.TablePlayerState{},
		GamePlayerIndexes: []int{},
		BlindState:        &pokertable.TableBlindState{Level: 1},
	}}
	t.Meta.ActionTime = verifrt.IntRange("actionTime", 0, 3)
	seated := verifrt.Bool("seated")
	for i := 0; i < n; i++ {
		id := vhPIDs[i]
		if i == 0 && !seated {
			id = "someone-else"
		}
		t.State.PlayerStates = append(t.State.PlayerStates, &pokertable.TablePlayerState{PlayerID: id, Seat: i, IsIn: verifrt.BoolI("isin", i), Bankroll: 100})
	}
	// hand players: a rotation / subset so that the runner's player is at game index gi or absent
	gi := verifrt.IntRange("gi", -1, m-1)
	for k := 0; k < m; k++ {
		if k == gi {
			t.State.GamePlayerIndexes = append(t.State.GamePlayerIndexes, 0)
		} else {
			t.State.GamePlayerIndexes = append(t.State.GamePlayerIndexes, k+1)
		}
	}
	if !seated {
		gi = -1
	}
	if verifrt.Bool("hasHand") {
		gs := &pokerface.GameState{GameID: "g1", UpdatedAt: verifrt.Int64("updatedAt")}
		gs.Meta.Ante = verifrt.Int64("ante")
		gs.Meta.Blind = pokerface.BlindSetting{Dealer: verifrt.Int64("blind.dealer"), SB: verifrt.Int64("blind.sb"), BB: verifrt.Int64("blind.bb")}
		gs.Status.CurrentEvent = vhEvents[verifrt.IntRange("event", 0, len(vhEvents)-1)]
		gs.Status.Round = "preflop"
		for k := 0; k < m; k++ {
			p := &pokerface.PlayerState{Idx: k, AllowedActions: []string{}, Positions: vhPosSets[verifrt.IntRangeI("posset", k, 0, len(vhPosSets)-1)],
				HoleCards: []string{"X", "Y"}, Combination: &pokerface.CombinationInfo{}}
			p.AllowedActions = vhShapes[verifrt.IntRangeI("shape", k, 0, len(vhShapes)-1)]
			gs.Players = append(gs.Players, p)
		}
		t.State.GameState = gs
	}
	return t, gi
}
