package actor

// C18 through the REAL table-engine adapter (the runner harnesses feed the bot through a
// recording fake): two consecutive views of one hand are delivered to the same adapter;
// in the second, newer one the bot is not asked any more.  It must stay silent — whatever
// the adapter does with its copies of the table between two updates.

import (
	"encoding/json"

	"github.com/weedbox/pokertable"
	"github.com/weedbox/pokertable/internal/verifrt"
)

// vhRecEngine: a TableEngine that records the player game actions it receives (every
// other method of the embedded nil interface is never called by an adapter).
type vhRecEngine struct {
	pokertable.TableEngine
	calls []vhAdCall
}

func (e *vhRecEngine) rec(kind, id string, chips int64) error {
	e.calls = append(e.calls, vhAdCall{kind, id, chips})
	return nil
}
func (e *vhRecEngine) PlayerReady(id string) error            { return e.rec("ready", id, 0) }
func (e *vhRecEngine) PlayerPay(id string, c int64) error     { return e.rec("pay", id, c) }
func (e *vhRecEngine) PlayerBet(id string, c int64) error     { return e.rec("bet", id, c) }
func (e *vhRecEngine) PlayerRaise(id string, c int64) error   { return e.rec("raise", id, c) }
func (e *vhRecEngine) PlayerCall(id string) error             { return e.rec("call", id, 0) }
func (e *vhRecEngine) PlayerAllin(id string) error            { return e.rec("allin", id, 0) }
func (e *vhRecEngine) PlayerCheck(id string) error            { return e.rec("check", id, 0) }
func (e *vhRecEngine) PlayerFold(id string) error             { return e.rec("fold", id, 0) }
func (e *vhRecEngine) PlayerPass(id string) error             { return e.rec("pass", id, 0) }
func (e *vhRecEngine) PlayerJoin(id string) error             { return e.rec("join", id, 0) }
func (e *vhRecEngine) PlayerSettlementFinish(id string) error { return e.rec("settlement-finish", id, 0) }

func VH_C18_Adapter() {
	m := verifrt.Cfg("m")
	t1, gi := vhRunnerTable(m)
	gs1 := t1.State.GameState
	verifrt.Assume(gs1 != nil && gi >= 0)
	for k := 0; k < m; k++ {
		sh := verifrt.IntRangeI("shape", k, 0, len(vhShapes)-1)
		// non-wager requests (ready / pay / pass / nothing): the wager choice itself is VH_C18_BotWager
		verifrt.Assume(sh == 0 || sh == 1 || sh == 8 || sh == 9)
		verifrt.Assume(sh != 9 || gs1.Status.CurrentEvent == "AnteRequested" || gs1.Status.CurrentEvent == "BlindsRequested")
	}
	verifrt.Assume(gs1.UpdatedAt >= 0 && gs1.UpdatedAt < 1<<40)
	eng := &vhRecEngine{}
	ad := NewTableEngineAdapter(eng, nil)
	a := NewActor()
	br := NewBotRunner(vhPIDs[0])
	a.SetAdapter(ad)
	a.SetRunner(br)
	br.timebank.ModelSetDeferred(true)
	br.isHumanized = false
	br.OnTableAutoJoinActionRequested(func(c, tid, pid string) {})

	verifrt.Assert(ad.UpdateTableState(t1) == nil, "first view accepted")
	n1 := len(eng.calls)
	verifrt.Assert(n1 <= 1, "at most one action for one view")

	// the next view of the same hand: newer, the bot is no longer asked (its request was
	// answered or the turn passed on); built as an independent copy, as the engine emits it
	raw, err := json.Marshal(t1)
	verifrt.Assert(err == nil, "snapshot serialises")
	var t2 pokertable.Table
	verifrt.Assert(json.Unmarshal(raw, &t2) == nil, "snapshot deserialises")
	t2.State.GameState.UpdatedAt = gs1.UpdatedAt + 1
	t2.State.GameState.Players[gi].AllowedActions = []string{}
	t2.UpdateSerial++

	verifrt.Assert(ad.UpdateTableState(&t2) == nil, "second view accepted")
	verifrt.Assert(len(eng.calls) == n1, "the bot stays silent on a view in which it is not asked, also right after one in which it was")
	verifrt.Reach("end")
}
