package actor

import (
	"github.com/weedbox/pokerface"
	"github.com/weedbox/pokertable"
	"github.com/weedbox/pokertable/internal/verifrt"
)

// VH_C18_BotThinking: a "humanized" bot asked for a wager action thinks for a random part of
// the action time before it moves.  Nothing is submitted before the thinking time has elapsed;
// views delivered meanwhile that the bot rightly ignores (an older view of the same hand, or a
// view in which it is not asked) do not change what it answers: when the time is up it submits
// exactly one action, for itself, allowed by the request it was given.  (Amount and acceptance
// by the real hand engine are VH_C18_BotWager, which runs the same requestAI.)
func VH_C18_BotThinking() {
	m := verifrt.Cfg("m")
	t, gi := vhRunnerTable(m)
	gs := t.State.GameState
	verifrt.Assume(gs != nil && gi >= 0 && t.State.Status == pokertable.TableStateStatus_TableGamePlaying)
	verifrt.Assume(t.State.PlayerStates[0].PlayerID == vhPIDs[0] && t.State.PlayerStates[0].IsIn)
	for k := 0; k < m; k++ {
		p := gs.Players[k]
		p.StackSize = verifrt.Int64I("stack", k)
		p.Wager = verifrt.Int64I("wager", k)
		verifrt.Assume(p.StackSize > 0 && p.StackSize < 1<<40 && p.Wager >= 0 && p.Wager < 1<<40)
		p.InitialStackSize = p.StackSize + p.Wager
	}
	gs.Status.MiniBet = verifrt.Int64("minibet")
	gs.Status.CurrentWager = verifrt.Int64("curwager")
	gs.Status.PreviousRaiseSize = verifrt.Int64("prevraise")
	verifrt.Assume(gs.Status.MiniBet > 0 && gs.Status.MiniBet < 1<<40 && gs.Status.CurrentWager >= 0 && gs.Status.CurrentWager < 1<<40 && gs.Status.PreviousRaiseSize >= 0 && gs.Status.PreviousRaiseSize < 1<<40)
	sh := verifrt.IntRange("myshape", 2, 7) // the wager shapes
	gs.Players[gi].AllowedActions = vhShapes[sh]
	allowed := vhShapes[sh]

	br := NewBotRunner(vhPIDs[0])
	ad := &vhAdapter{}
	a := NewActor()
	a.SetAdapter(ad)
	a.SetRunner(br)
	br.timebank.ModelSetDeferred(true)
	br.isHumanized = true
	br.lastGameStateTime = verifrt.Int64("lastSeen")
	br.curGameID = "g1"
	verifrt.Assume(br.lastGameStateTime < gs.UpdatedAt)

	err := ad.UpdateTableState(t)
	verifrt.Assert(err == nil, "bot accepts the snapshot")
	if br.timebank.ModelArmed() {
		verifrt.Reach("thinking")
		verifrt.Assert(len(ad.calls) == 0, "a thinking bot has not moved yet")
		if verifrt.Bool("viewWhileThinking") {
			// an older view of the same hand, delivered again
			gs0 := &pokerface.GameState{GameID: gs.GameID, UpdatedAt: verifrt.Int64("old.updatedAt")}
			verifrt.Assume(gs0.UpdatedAt <= gs.UpdatedAt)
			gs0.Status.CurrentEvent = vhPick("old.event", []string{"ReadyRequested", "RoundStarted"})
			gs0.Status.Round = "preflop"
			for k := 0; k < m; k++ {
				p0 := &pokerface.PlayerState{Idx: k, Positions: []string{}, AllowedActions: []string{}, StackSize: 1, InitialStackSize: 1}
				if gs0.Status.CurrentEvent == "ReadyRequested" {
					p0.AllowedActions = []string{"ready"}
				}
				gs0.Players = append(gs0.Players, p0)
			}
			t0 := &pokertable.Table{ID: "T", Meta: t.Meta, State: &pokertable.TableState{Status: pokertable.TableStateStatus_TableGamePlaying,
				PlayerStates: t.State.PlayerStates, GamePlayerIndexes: t.State.GamePlayerIndexes, GameState: gs0, BlindState: &pokertable.TableBlindState{Level: 1}}}
			ad.UpdateTableState(t0)
			verifrt.Assert(len(ad.calls) == 0, "bot stays silent on a stale view")
			ad.table = t // the engine's hand is still at the newer state
		}
		verifrt.Assert(br.timebank.ModelArmed(), "the bot is still thinking about the request it was given")
		br.timebank.ModelFire()
	} else {
		verifrt.Reach("no thinking time drawn")
	}
	verifrt.Assert(len(ad.calls) == 1 && ad.calls[0].id == vhPIDs[0], "exactly one action, for itself, once the thinking time is up")
	verifrt.Assert(vhHas(allowed, ad.calls[0].kind), "the action answers the request the bot was given: it is one that request allows")
	verifrt.Reach("end")
}
