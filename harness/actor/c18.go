package actor

// C18 — bots only ever make legal moves.

import (
	"github.com/weedbox/pokerface"
	"github.com/weedbox/pokertable"
	"github.com/weedbox/pokertable/internal/verifrt"
)

// vhBotHand: a betting-round hand state with m players under the hand-state
// invariant P(gs) of DESIGN.md; the acting player's allowed actions are computed
// by the real hand engine (GetAvailableActions).
func vhBotHand(m, gi int) *pokerface.GameState {
	gs := &pokerface.GameState{GameID: "g1", UpdatedAt: verifrt.Int64("updatedAt")}
	gs.Meta.Ante = verifrt.Int64("ante")
	gs.Meta.Blind = pokerface.BlindSetting{Dealer: verifrt.Int64("blind.dealer"), SB: verifrt.Int64("blind.sb"), BB: verifrt.Int64("blind.bb")}
	verifrt.Assume(gs.Meta.Ante >= 0 && gs.Meta.Blind.Dealer >= 0 && gs.Meta.Blind.SB >= 0 && gs.Meta.Blind.BB >= 0)
	verifrt.Assume(gs.Meta.Ante < 1<<40 && gs.Meta.Blind.Dealer < 1<<40 && gs.Meta.Blind.SB < 1<<40 && gs.Meta.Blind.BB < 1<<40)
	gs.Meta.Limit = "no"
	gs.Status.CurrentEvent = "RoundStarted"
	gs.Status.Round = vhPick("round", []string{"preflop", "flop", "turn", "river"})
	gs.Status.CurrentPlayer = gi
	gs.Status.CurrentRaiser = verifrt.IntRange("raiser", 0, m-1)
	gs.Status.CurrentWager = verifrt.Int64("curWager")
	gs.Status.PreviousRaiseSize = verifrt.Int64("prevRaise")
	gs.Status.MiniBet = verifrt.Int64("miniBet")
	verifrt.Assume(gs.Status.CurrentWager >= 0 && gs.Status.PreviousRaiseSize >= 0 && gs.Status.MiniBet >= 0)
	verifrt.Assume(gs.Status.CurrentWager < 1<<40 && gs.Status.PreviousRaiseSize < 1<<40 && gs.Status.MiniBet < 1<<40)
	// a wager in the round implies a positive last raise size: blinds, bets, raises and
	// all-ins all set it (blind structures with neither big blind nor dealer blind are outside)
	verifrt.Assume(gs.Status.CurrentWager == 0 || gs.Status.PreviousRaiseSize > 0)
	// the minimum bet is the larger of big blind and dealer blind (pokerface Initialize)
	if gs.Meta.Blind.Dealer > gs.Meta.Blind.BB {
		verifrt.Assume(gs.Status.MiniBet == gs.Meta.Blind.Dealer)
	} else {
		verifrt.Assume(gs.Status.MiniBet == gs.Meta.Blind.BB)
	}
	for k := 0; k < m; k++ {
		p := &pokerface.PlayerState{Idx: k, AllowedActions: []string{}, Positions: vhPosSets[verifrt.IntRangeI("posset", k, 0, len(vhPosSets)-1)],
			HoleCards: []string{"X", "Y"}, Combination: &pokerface.CombinationInfo{}}
		p.Fold = verifrt.BoolI("fold", k)
		p.Acted = verifrt.BoolI("acted", k)
		p.StackSize = verifrt.Int64I("stack", k)
		p.Wager = verifrt.Int64I("wager", k)
		p.Pot = verifrt.Int64I("pot", k)
		verifrt.Assume(p.StackSize >= 0 && p.Wager >= 0 && p.Pot >= 0 && p.StackSize < 1<<40 && p.Wager < 1<<40 && p.Pot < 1<<40)
		p.InitialStackSize = p.StackSize + p.Wager
		p.Bankroll = p.InitialStackSize + p.Pot
		// nobody has wagered more than the current wager
		verifrt.Assume(p.Wager <= gs.Status.CurrentWager)
		gs.Players = append(gs.Players, p)
	}
	// exactly one player holds the dealer label (the engine cannot run without one)
	dealers := 0
	for k := 0; k < m; k++ {
		if vhHas(gs.Players[k].Positions, "dealer") {
			dealers++
		}
	}
	verifrt.Assume(dealers == 1)
	return gs
}

func vhPick(name string, from []string) string { return from[verifrt.IntRange(name, 0, len(from)-1)] }

// VH_C18_BotWager: the bot is asked for a wager action in a betting round.
func VH_C18_BotWager() {
	m := verifrt.Cfg("m")
	gi := verifrt.IntRange("gi", 0, m-1)
	gs := vhBotHand(m, gi)
	// the real engine decides what the bot is allowed to do
	eng := pokerface.NewGameFromState(gs)
	allowed := eng.GetAvailableActions(eng.Player(gi))
	gs.Players[gi].AllowedActions = allowed
	// the hand is really waiting for this player: not folded, chips left
	verifrt.Assume(!vhHas(allowed, "pass"))

	t := &pokertable.Table{ID: "T", State: &pokertable.TableState{Status: pokertable.TableStateStatus_TableGamePlaying,
		PlayerStates: []*pokertable.TablePlayerState{}, GamePlayerIndexes: []int{}, GameState: gs, BlindState: &pokertable.TableBlindState{Level: 1}}}
	for i := 0; i < m; i++ {
		t.State.PlayerStates = append(t.State.PlayerStates, &pokertable.TablePlayerState{PlayerID: vhPIDs[i], Seat: i, IsIn: true, Bankroll: 1})
		t.State.GamePlayerIndexes = append(t.State.GamePlayerIndexes, i)
	}
	me := vhPIDs[gi]
	p := gs.Players[gi]
	stack, initial, curWager, prevRaise, miniBet := p.StackSize, p.InitialStackSize, gs.Status.CurrentWager, gs.Status.PreviousRaiseSize, gs.Status.MiniBet

	br := NewBotRunner(me)
	ad := &vhAdapter{}
	a := NewActor()
	a.SetAdapter(ad)
	a.SetRunner(br)
	br.timebank.ModelSetDeferred(true)
	br.lastGameStateTime = verifrt.Int64("lastSeen")
	br.curGameID = "g1"
	verifrt.Assume(br.lastGameStateTime < gs.UpdatedAt)

	err := ad.UpdateTableState(t)
	verifrt.Assert(err == nil, "bot accepts the snapshot")
	verifrt.Assert(len(ad.calls) == 1, "bot submits exactly one action when asked")
	c := ad.calls[0]
	verifrt.Assert(c.id == me, "bot acts for itself")
	verifrt.Assert(vhHas(allowed, c.kind), "bot's action is one the hand engine allows")
	switch c.kind {
	case "bet":
		lo := miniBet
		if stack < lo {
			lo = stack
		}
		verifrt.Assert(c.chips >= lo && c.chips <= stack, "bet within [min(minimum bet, stack), stack]")
	case "raise":
		verifrt.Assert(c.chips <= initial, "raise level within the stack")
		verifrt.Assert(c.chips >= curWager+prevRaise || c.chips == initial, "raise level at least a minimum raise, or the all-in level")
	}

	// the real hand engine accepts it.  The engine's follow-up (next player, pots,
	// next round) is cut off by clearing the current event: Resume() is then a
	// no-op, and what remains is exactly the acceptance logic of the action.
	gs.Status.CurrentEvent = ""
	eng2 := pokerface.NewGameFromState(gs)
	var e2 error
	switch c.kind {
	case "fold":
		e2 = eng2.Player(gi).Fold()
	case "check":
		e2 = eng2.Player(gi).Check()
	case "call":
		e2 = eng2.Player(gi).Call()
	case "allin":
		e2 = eng2.Player(gi).Allin()
	case "bet":
		e2 = eng2.Player(gi).Bet(c.chips)
	case "raise":
		e2 = eng2.Player(gi).Raise(c.chips)
	}
	verifrt.Assert(e2 == nil, "the hand engine accepts the bot's move")
	// ... and pokertable's own game wrapper, which validates a move before the hand engine
	// sees it, lets it through (checked against an accept-everything backend)
	wr := pokertable.VHWrapperOn(gs)
	var e3 error
	switch c.kind {
	case "fold":
		_, e3 = wr.Fold(gi)
	case "check":
		_, e3 = wr.Check(gi)
	case "call":
		_, e3 = wr.Call(gi)
	case "allin":
		_, e3 = wr.Allin(gi)
	case "bet":
		_, e3 = wr.Bet(gi, c.chips)
	case "raise":
		_, e3 = wr.Raise(gi, c.chips)
	}
	verifrt.Assert(e3 == nil, "pokertable's game wrapper passes the bot's move on to the hand engine")
	verifrt.Reach("end")
}

// VH_C18_BotOther: readiness / mandatory payments / pass, and silence when the
// bot is not asked or its view is stale.
func VH_C18_BotOther() {
	m := verifrt.Cfg("m")
	t, gi := vhRunnerTable(m)
	gs := t.State.GameState
	verifrt.Assume(t.State.Status != pokertable.TableStateStatus_TableGamePlaying || gs != nil)
	// this obligation covers the non-wager requests; wager requests are VH_C18_BotWager
	if gs != nil {
		for k := 0; k < m; k++ {
			sh := verifrt.IntRangeI("shape", k, 0, len(vhShapes)-1)
			verifrt.Assume(sh == 0 || sh == 1 || sh == 8 || sh == 9)
			// game.go allows pay only at the ante / blind collection points
			verifrt.Assume(sh != 9 || gs.Status.CurrentEvent == "AnteRequested" || gs.Status.CurrentEvent == "BlindsRequested")
		}
	}
	br := NewBotRunner(vhPIDs[0])
	ad := &vhAdapter{}
	a := NewActor()
	a.SetAdapter(ad)
	a.SetRunner(br)
	br.timebank.ModelSetDeferred(true)
	br.isHumanized = verifrt.Bool("humanized")
	br.lastGameStateTime = verifrt.Int64("lastSeen")
	br.curGameID = vhPick("curGame", []string{"g1", "g0"})
	joins := 0
	br.OnTableAutoJoinActionRequested(func(c, tid, pid string) { joins++ })

	seated := t.State.PlayerStates[0].PlayerID == vhPIDs[0]
	isIn := t.State.PlayerStates[0].IsIn
	stale := gs != nil && gs.GameID == br.curGameID && br.lastGameStateTime >= gs.UpdatedAt
	var allowed []string
	if gs != nil && gi >= 0 {
		allowed = gs.Players[gi].AllowedActions
	}
	asked := seated && isIn && !stale && t.State.Status == pokertable.TableStateStatus_TableGamePlaying && gs != nil && gi >= 0 && len(allowed) > 0

	err := ad.UpdateTableState(t)
	verifrt.Assert(err == nil, "bot accepts the snapshot")
	if seated && isIn && gs != nil {
		// step lemma behind "stays silent when its view is stale" over several deliveries:
		// whatever the view asked of the bot, it is remembered, so that an older view of the
		// same hand arriving later is recognised as stale
		verifrt.Assert(br.curGameID == gs.GameID && br.lastGameStateTime >= gs.UpdatedAt, "the bot remembers the newest view of the hand it was shown")
	}
	if !asked {
		verifrt.Reach("silent")
		verifrt.Assert(len(ad.calls) == 0, "bot stays silent when not asked or when its view is stale")
		if seated && !isIn {
			verifrt.Assert(br.timebank.ModelArmed(), "a bot that is not seated-in asks to join")
			br.timebank.ModelFire()
			verifrt.Assert(joins == 1 && len(ad.calls) == 0, "join request, no game action")
		}
	} else {
		verifrt.Reach("asked")
		verifrt.Assert(len(ad.calls) == 1 && ad.calls[0].id == vhPIDs[0], "exactly one action, for itself")
		c := ad.calls[0]
		verifrt.Assert(vhHas(allowed, c.kind), "the action is allowed")
		if c.kind == "pay" {
			want := gs.Meta.Blind.Dealer
			if gs.Status.CurrentEvent == "AnteRequested" {
				want = gs.Meta.Ante
			} else if gs.HasPosition(gi, "sb") {
				want = gs.Meta.Blind.SB
			} else if gs.HasPosition(gi, "bb") {
				want = gs.Meta.Blind.BB
			}
			verifrt.Assert(c.chips == want, "mandatory payment of the posted size for its position")
		}
	}
	verifrt.Reach("end")
}
