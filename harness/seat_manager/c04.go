package seat_manager

// C04 — button and blinds move by the dead-button rule.
// Harness functions are executed symbolically by symgo and natively on replay.

import "github.com/weedbox/pokertable/internal/verifrt"

var vhIDs = []string{"p0", "p1", "p2", "p3", "p4", "p5", "p6", "p7", "p8", "p9", "p10", "p11"}

// vhArbitrarySM builds an arbitrary seat-manager state with M seats: every
// occupancy, every flag combination, arbitrary button seats.
func vhArbitrarySM(M int, rule string) *seatManager {
	sm := &seatManager{MaxSeat: M, SeatData: make(map[int]*SeatPlayer), Rule: rule}
	for i := 0; i < M; i++ {
		if verifrt.BoolI("occ", i) {
			sm.SeatData[i] = &SeatPlayer{
				ID:                vhIDs[i],
				IsIn:              verifrt.BoolI("in", i),
				IsBetweenDealerBB: verifrt.BoolI("btw", i),
				HasChips:          verifrt.BoolI("chips", i),
			}
		} else {
			sm.SeatData[i] = nil
		}
	}
	// -1 (unset) .. M-1; the shape invariant is assumed by the callers
	sm.DealerSeatID = verifrt.IntRange("D", -1, M-1)
	sm.SBSeatID = verifrt.IntRange("SB", -1, M-1)
	sm.BBSeatID = verifrt.IntRange("BB", -1, M-1)
	sm.IsInit = verifrt.Bool("init")
	return sm
}

func vhInRange(x, M int) bool { return x >= 0 && x < M }

// vhShapeInv is Inv_SM ∧ J of DESIGN.md for an initialised default-rule manager.
func vhShapeInv(sm *seatManager) bool {
	M := sm.MaxSeat
	if sm.Rule == Rule_ShortDeck {
		return vhInRange(sm.DealerSeatID, M) && sm.SBSeatID == UnsetSeatID && sm.BBSeatID == UnsetSeatID
	}
	return vhInRange(sm.DealerSeatID, M) && vhInRange(sm.SBSeatID, M) && vhInRange(sm.BBSeatID, M) && sm.SBSeatID != sm.BBSeatID
}

type vhSeat struct {
	occ, in, btw, chips bool
}

type vhPre struct {
	M         int
	seats     []vhSeat
	D, SB, BB int
}

func vhCapture(sm *seatManager) *vhPre {
	p := &vhPre{M: sm.MaxSeat, D: sm.DealerSeatID, SB: sm.SBSeatID, BB: sm.BBSeatID}
	for i := 0; i < sm.MaxSeat; i++ {
		sp := sm.SeatData[i]
		if sp == nil {
			p.seats = append(p.seats, vhSeat{})
		} else {
			p.seats = append(p.seats, vhSeat{occ: true, in: sp.IsIn, btw: sp.IsBetweenDealerBB, chips: sp.HasChips})
		}
	}
	return p
}

func (p *vhPre) eligible(s int) bool { return p.seats[s].occ && p.seats[s].in && p.seats[s].chips }
func (p *vhPre) active(s int) bool   { return p.eligible(s) && !p.seats[s].btw }

func (p *vhPre) eligibleCount() int {
	c := 0
	for s := 0; s < p.M; s++ {
		if p.eligible(s) {
			c++
		}
	}
	return c
}

// firstEligibleAfter: nearest seat clockwise after s (excluding s) whose
// occupant is seated-in and has chips; -1 if none.
func (p *vhPre) firstEligibleAfter(s int) int {
	for i := 1; i < p.M; i++ {
		t := (s + i) % p.M
		if p.eligible(t) {
			return t
		}
	}
	return -1
}

func (p *vhPre) firstEligibleBefore(s int) int {
	for i := 1; i < p.M; i++ {
		t := (s + p.M - i) % p.M
		if p.eligible(t) {
			return t
		}
	}
	return -1
}

// strictlyBetween: t lies clockwise strictly after a and strictly before b.
func vhStrictlyBetween(M, a, b, t int) bool {
	if a == b {
		return false
	}
	da := (t - a + M) % M
	db := (b - a + M) % M
	return da > 0 && da < db
}

func vhPostActive(sm *seatManager, s int) bool {
	sp := sm.SeatData[s]
	return sp != nil && sp.IsIn && sp.HasChips && !sp.IsBetweenDealerBB
}

func vhPostActiveCount(sm *seatManager) int {
	c := 0
	for s := 0; s < sm.MaxSeat; s++ {
		if vhPostActive(sm, s) {
			c++
		}
	}
	return c
}

// Known-finding regions (DESIGN.md C04): stated on the pre-state only.
//
// R1: at least two eligible players, yet after the waiting flags are
// re-evaluated against (old SB seat, new BB seat) fewer than two of them are
// dealt in: every eligible seat that was not dealt in before and lies strictly
// between the old SB seat and the new BB seat keeps waiting.
func vhKF_R1(p *vhPre) bool {
	if p.eligibleCount() < 2 {
		return false
	}
	nbb := p.firstEligibleAfter(p.BB)
	if nbb < 0 {
		return false
	}
	c := 0
	for s := 0; s < p.M; s++ {
		if p.eligible(s) && (p.active(s) || !vhStrictlyBetween(p.M, p.SB, nbb, s)) {
			c++
		}
	}
	return c < 2
}

// R2: previous hand was not heads-up and the next eligible seat after the big
// blind is the old small-blind seat (the seat that becomes the dealer).
func vhKF_R2(p *vhPre) bool {
	hu := p.D == p.SB && p.BB != p.D
	return !hu && p.firstEligibleAfter(p.BB) == p.SB
}

// VH_C04_RotateDefault: one RotatePositions step of the default rule from an
// arbitrary state satisfying the shape invariant.
func VH_C04_RotateDefault() {
	M := verifrt.Cfg("M")
	sm := vhArbitrarySM(M, Rule_Default)
	verifrt.Assume(sm.IsInit)
	verifrt.Assume(vhShapeInv(sm))
	p := vhCapture(sm)
	preHU := p.D == p.SB && p.BB != p.D

	verifrt.KF("C04_R1", vhKF_R1(p))
	verifrt.KF("C04_R2", vhKF_R2(p))

	err := sm.RotatePositions()

	if err != nil {
		verifrt.Reach("refused")
		verifrt.Assert(sm.DealerSeatID == p.D && sm.SBSeatID == p.SB && sm.BBSeatID == p.BB, "refused rotation moves nothing")
		verifrt.Assert(p.eligibleCount() < 2, "refused only when fewer than two seated-in players have chips")
	} else {
		verifrt.Reach("rotated")
		nbb := p.firstEligibleAfter(p.BB)
		verifrt.Assert(sm.BBSeatID == nbb, "big blind moves to the next seated-in player with chips")
		verifrt.Assert(vhInRange(sm.BBSeatID, M) && vhPostActive(sm, sm.BBSeatID), "big-blind seat holds a dealt-in player")
		ac := vhPostActiveCount(sm)
		verifrt.Assert(ac >= 2, "at least two dealt in after a successful rotation")
		if ac >= 3 {
			verifrt.Reach("ring")
			verifrt.Assert(sm.SBSeatID == p.BB, "ring: small blind is the previous big-blind seat")
			if preHU {
				verifrt.Assert(sm.DealerSeatID == p.firstEligibleBefore(sm.SBSeatID), "ring after heads-up: dealer is the nearest live seat before the small blind")
			} else {
				verifrt.Assert(sm.DealerSeatID == p.SB, "ring: dealer is the previous small-blind seat")
			}
			verifrt.Assert(sm.DealerSeatID != sm.SBSeatID && sm.SBSeatID != sm.BBSeatID && sm.DealerSeatID != sm.BBSeatID, "ring: dealer, small blind and big blind seats are distinct")
		} else {
			verifrt.Reach("heads-up")
			verifrt.Assert(sm.DealerSeatID == sm.SBSeatID, "heads-up: dealer and small blind coincide")
			verifrt.Assert(vhInRange(sm.DealerSeatID, M) && sm.DealerSeatID != sm.BBSeatID && vhPostActive(sm, sm.DealerSeatID), "heads-up: dealer/small blind is the other dealt-in player")
		}
	}
	verifrt.Reach("end")
}

func (p *vhPre) activeCount() int {
	c := 0
	for s := 0; s < p.M; s++ {
		if p.active(s) {
			c++
		}
	}
	return c
}

func (p *vhPre) firstActiveBefore(s int) int {
	for i := 1; i < p.M; i++ {
		t := (s + p.M - i) % p.M
		if p.active(t) {
			return t
		}
	}
	return -1
}

func (p *vhPre) firstActiveAfter(s int) int {
	for i := 1; i < p.M; i++ {
		t := (s + i) % p.M
		if p.active(t) {
			return t
		}
	}
	return -1
}

// VH_C04_Init: InitPositions (random or first-seat) from any seating before the first hand.
func VH_C04_Init() {
	M := verifrt.Cfg("M")
	sm := vhArbitrarySM(M, Rule_Default)
	verifrt.Assume(!sm.IsInit && sm.DealerSeatID == -1 && sm.SBSeatID == -1 && sm.BBSeatID == -1)
	p := vhCapture(sm)
	random := verifrt.Cfg("random") == 1
	err := sm.InitPositions(random)
	ac := p.activeCount()
	if err != nil {
		verifrt.Reach("refused")
		verifrt.Assert(ac < 2, "initial positions are refused only with fewer than two dealt-in players")
		verifrt.Assert(!sm.IsInit && sm.DealerSeatID == -1 && sm.SBSeatID == -1 && sm.BBSeatID == -1, "refused initialisation moves nothing")
	} else {
		verifrt.Reach("initialised")
		verifrt.Assert(ac >= 2 && sm.IsInit, "initialised with at least two dealt in")
		bb := sm.BBSeatID
		verifrt.Assert(vhInRange(bb, M) && p.active(bb), "big-blind seat holds a dealt-in player")
		if !random {
			first := -1
			for s := M - 1; s >= 0; s-- {
				if p.active(s) {
					first = s
				}
			}
			verifrt.Assert(bb == first, "non-random initialisation puts the big blind on the lowest dealt-in seat")
		}
		if ac == 2 {
			verifrt.Assert(sm.DealerSeatID == sm.SBSeatID && vhInRange(sm.DealerSeatID, M) && sm.DealerSeatID != bb && p.active(sm.DealerSeatID), "heads-up: dealer and small blind are the other player")
		} else {
			verifrt.Assert(sm.SBSeatID == p.firstActiveBefore(bb), "ring: small blind is the nearest dealt-in seat before the big blind")
			verifrt.Assert(sm.DealerSeatID == p.firstActiveBefore(sm.SBSeatID), "ring: dealer is the nearest dealt-in seat before the small blind")
			verifrt.Assert(sm.DealerSeatID != sm.SBSeatID && sm.SBSeatID != bb && sm.DealerSeatID != bb, "ring: the three seats are distinct")
		}
		verifrt.Assert(vhShapeInv(sm), "shape invariant established")
	}
	verifrt.Reach("end")
}

// VH_C04_ShortDeck: short-deck tables pass the dealer to the next dealt-in seat.
func VH_C04_ShortDeck() {
	M := verifrt.Cfg("M")
	sm := vhArbitrarySM(M, Rule_ShortDeck)
	initial := verifrt.Bool("initial")
	if initial {
		verifrt.Assume(!sm.IsInit && sm.DealerSeatID == -1 && sm.SBSeatID == -1 && sm.BBSeatID == -1)
	} else {
		verifrt.Assume(sm.IsInit && vhShapeInv(sm))
	}
	p := vhCapture(sm)
	var err error
	if initial {
		err = sm.InitPositions(verifrt.Bool("random"))
	} else {
		err = sm.RotatePositions()
	}
	if err != nil {
		verifrt.Assert(p.activeCount() < 2, "refused only with fewer than two dealt-in players")
		verifrt.Assert(sm.DealerSeatID == p.D && sm.SBSeatID == p.SB && sm.BBSeatID == p.BB, "refusal moves nothing")
	} else {
		verifrt.Assert(p.activeCount() >= 2, "at least two dealt in")
		verifrt.Assert(sm.SBSeatID == -1 && sm.BBSeatID == -1, "short deck has no blinds seats")
		verifrt.Assert(vhInRange(sm.DealerSeatID, M) && p.active(sm.DealerSeatID), "dealer seat holds a dealt-in player")
		if !initial {
			verifrt.Assert(sm.DealerSeatID == p.firstActiveAfter(p.D), "dealer passes to the next dealt-in seat")
		}
	}
	for s := 0; s < M; s++ {
		if sm.SeatData[s] != nil {
			verifrt.Assert(sm.SeatData[s].IsBetweenDealerBB == p.seats[s].btw, "short deck never touches waiting flags")
		}
	}
	verifrt.Reach("end")
}

// VH_C04_InvPreserved: every mutator preserves the representation / shape
// invariant Inv_SM ∧ J (so the step lemmas chain over histories of any length).
// op: 0 AssignSeats, 1 RandomAssignSeats, 2 RemoveSeats, 3 JoinPlayers,
// 4 UpdatePlayerHasChips, 5 InitPositions, 6 RotatePositions.
func VH_C04_InvPreserved() {
	M := verifrt.Cfg("M")
	op := verifrt.Cfg("op")
	sm := vhArbitrarySM(M, Rule_Default)
	verifrt.Assume(!sm.IsInit || vhShapeInv(sm))
	verifrt.Assume(sm.IsInit || (sm.DealerSeatID == -1 && sm.SBSeatID == -1 && sm.BBSeatID == -1))
	idA := vhIDs[verifrt.IntRange("idA", 0, M+1)]
	idB := vhIDs[verifrt.IntRange("idB", 0, M+1)]
	seatA := verifrt.IntRange("seatA", -2, M+1)
	seatB := verifrt.IntRange("seatB", -2, M+1)
	d0, sb0, bb0, init0 := sm.DealerSeatID, sm.SBSeatID, sm.BBSeatID, sm.IsInit
	pre0 := make([]vhSeat, M)
	preID := make([]string, M)
	for s := 0; s < M; s++ {
		if p := sm.SeatData[s]; p != nil {
			pre0[s] = vhSeat{occ: true, in: p.IsIn, btw: p.IsBetweenDealerBB, chips: p.HasChips}
			preID[s] = p.ID
		}
	}
	var opErr error
	switch op {
	case 0:
		opErr = sm.AssignSeats(map[string]int{idA: seatA, idB: seatB})
	case 1:
		opErr = sm.RandomAssignSeats([]string{idA, idB})
	case 2:
		opErr = sm.RemoveSeats([]string{idA, idB})
	case 3:
		sm.JoinPlayers([]string{idA, idB})
	case 4:
		sm.UpdatePlayerHasChips(idA, verifrt.Bool("chipsArg"))
	case 5:
		sm.InitPositions(verifrt.Bool("random"))
	case 6:
		sm.RotatePositions()
	}
	if op <= 2 {
		// membership effect and frame: who was seated and is not named by a removal keeps his
		// seat; an accepted assignment seats every named player on exactly one seat (the one
		// named, for fixed seats); an accepted removal unseats exactly the named players;
		// a refused operation changes no seat
		seatOf := func(id string) int {
			at := -1
			for s := 0; s < M; s++ {
				if p := sm.SeatData[s]; p != nil && p.ID == id {
					at = s
				}
			}
			return at
		}
		for s := 0; s < M; s++ {
			if !pre0[s].occ {
				continue
			}
			named := preID[s] == idA || preID[s] == idB
			if opErr != nil || op != 2 || !named {
				verifrt.Assert(sm.SeatData[s] != nil && sm.SeatData[s].ID == preID[s], "a seated player not named by an accepted removal keeps his seat")
			} else {
				verifrt.Assert(sm.SeatData[s] == nil, "an accepted removal frees the seats of the named players")
			}
		}
		if opErr == nil && op != 2 {
			verifrt.Assert(seatOf(idA) >= 0 && seatOf(idB) >= 0, "an accepted assignment seats every named player")
			if op == 0 {
				// (the same id given twice is one map entry: the later seat counts)
				verifrt.Assert(seatOf(idB) == seatB && (idA == idB || seatOf(idA) == seatA), "an accepted fixed assignment uses the seats named")
			}
		}
		if opErr != nil {
			for s := 0; s < M; s++ {
				verifrt.Assert((sm.SeatData[s] != nil) == pre0[s].occ, "a refused membership operation changes no seat")
			}
		}
	}
	if op <= 4 {
		// the button and the blinds move only when positions are computed for a hand: seating,
		// departures, joins and chip flags never move them (nor forget that they were set)
		verifrt.Assert(sm.DealerSeatID == d0 && sm.SBSeatID == sb0 && sm.BBSeatID == bb0 && sm.IsInit == init0, "membership and chip events leave dealer, small blind, big blind and the initialised flag alone")
	}
	if op == 3 || op == 4 {
		// frame of the two flag events: a join only sets seated-in flags, a chip update only
		// the has-chips flag of the named player; who sits where and the other flags stay
		for s := 0; s < M; s++ {
			p := sm.SeatData[s]
			verifrt.Assert((p != nil) == pre0[s].occ, "flag events leave the occupancy of every seat alone")
			if p != nil && pre0[s].occ {
				verifrt.Assert(p.ID == preID[s] && p.IsBetweenDealerBB == pre0[s].btw, "flag events leave occupant and waiting flag alone")
				if op == 3 {
					verifrt.Assert(p.HasChips == pre0[s].chips && (p.IsIn == pre0[s].in || (p.IsIn && (p.ID == idA || p.ID == idB))), "a join only sets the seated-in flag of the named players")
				} else {
					verifrt.Assert(p.IsIn == pre0[s].in && (p.HasChips == pre0[s].chips || p.ID == idA), "a chip update only touches the has-chips flag of the named player")
				}
			}
		}
	}
	verifrt.Assert(len(sm.SeatData) == M, "seat data keeps exactly the configured seats")
	for s := 0; s < M; s++ {
		_, ok := sm.SeatData[s]
		verifrt.Assert(ok, "every configured seat exists")
		for t := 0; t < s; t++ {
			if sm.SeatData[s] != nil && sm.SeatData[t] != nil {
				verifrt.Assert(sm.SeatData[s].ID != sm.SeatData[t].ID, "no player holds two seats")
			}
		}
	}
	if sm.IsInit {
		verifrt.Assert(vhShapeInv(sm), "button seats stay inside the table, small blind and big blind differ")
	} else {
		verifrt.Assert(sm.DealerSeatID == -1 && sm.SBSeatID == -1 && sm.BBSeatID == -1, "buttons unset before the first hand")
	}
	verifrt.Reach("end")
}
