package seat_manager

// Encoder self-tests (translation validation of executor features that the code base
// itself does not exercise today but realistic changes do). Each runs symbolically and,
// through the conformance replay, natively: both must agree.

import (
	"encoding/json"

	"github.com/weedbox/pokertable/internal/verifrt"
)

var vhSelfArr [4]int

// VH_Self_Slice3: a 3-index slice limits the capacity, so append reallocates instead
// of writing through to the shared backing array; a 2-index slice writes through.
func VH_Self_Slice3() {
	k := verifrt.IntRange("k", 1, 2)
	for i := range vhSelfArr {
		vhSelfArr[i] = 0
	}
	s := vhSelfArr[:k:k]
	verifrt.Assert(len(s) == k && cap(s) == k, "3-index slice: length and capacity")
	t := append(s, 7)
	verifrt.Assert(vhSelfArr[k] == 0 && t[k] == 7 && len(t) == k+1, "append beyond a 3-index limit reallocates")
	t[0] = 5
	verifrt.Assert(vhSelfArr[0] == 0, "the reallocated slice no longer aliases the array")
	u := vhSelfArr[:k]
	v := append(u, 9)
	verifrt.Assert(vhSelfArr[k] == 9 && v[k] == 9, "append within capacity writes through")
	w := vhSelfArr[1:2:3]
	verifrt.Assert(len(w) == 1 && cap(w) == 2, "3-index slice with a low bound")
	x := append(w, 1, 2)
	x[0] = 4
	verifrt.Assert(vhSelfArr[1] != 4, "second append past the limit reallocates too")
	verifrt.Reach("end")
}

type vhSelfInner struct {
	A int    `json:"a"`
	B string `json:"b"`
}
type vhSelfOuter struct {
	ID    string       `json:"id"`
	Inner *vhSelfInner `json:"inner"`
}

// VH_Self_JSONInto: json.Unmarshal into a pointer that is not nil decodes into the
// existing object (so a struct copy whose pointer field is "re-decoded" still shares it).
func VH_Self_JSONInto() {
	live := vhSelfOuter{ID: "x", Inner: &vhSelfInner{A: 1, B: "one"}}
	enc, err := json.Marshal(live.Inner)
	verifrt.Assert(err == nil, "marshal")
	clone := live // struct copy: clone.Inner aliases live.Inner
	err = json.Unmarshal(enc, &clone.Inner)
	verifrt.Assert(err == nil, "unmarshal")
	verifrt.Assert(clone.Inner == live.Inner, "decoding into a non-nil pointer keeps the pointer")
	clone.Inner.A = 7
	verifrt.Assert(live.Inner.A == 7, "so the 'clone' still shares the object")
	var fresh *vhSelfInner
	err = json.Unmarshal(enc, &fresh)
	verifrt.Assert(err == nil && fresh != nil && fresh != live.Inner && fresh.A == 1 && fresh.B == "one", "decoding into a nil pointer allocates")
	verifrt.Reach("end")
}

type vhSelfP struct {
	A []string `json:"a,omitempty"`
	N int      `json:"n"`
}
type vhSelfT struct {
	Ps []*vhSelfP `json:"ps"`
	S  string     `json:"s,omitempty"`
}

// VH_Self_JSONReuse: decoding into a target that already holds data merges: keys dropped
// by omitempty keep their old value, existing slice elements (pointees) are decoded into.
func VH_Self_JSONReuse() {
	var reused vhSelfT
	n2 := verifrt.IntRange("n2", 2, 3)
	enc1, _ := json.Marshal(vhSelfT{Ps: []*vhSelfP{{A: []string{"x"}, N: 1}}, S: "one"})
	verifrt.Assert(json.Unmarshal(enc1, &reused) == nil, "first decode")
	verifrt.Assert(len(reused.Ps) == 1 && len(reused.Ps[0].A) == 1 && reused.Ps[0].N == 1 && reused.S == "one", "first decode fills the fresh target")
	p0 := reused.Ps[0]
	enc2, _ := json.Marshal(vhSelfT{Ps: []*vhSelfP{{A: nil, N: n2}}})
	verifrt.Assert(json.Unmarshal(enc2, &reused) == nil, "second decode")
	verifrt.Assert(reused.Ps[0] == p0, "the existing element is decoded into, not replaced")
	verifrt.Assert(reused.Ps[0].N == n2, "present keys overwrite")
	verifrt.Assert(len(reused.Ps[0].A) == 1 && reused.S == "one", "keys dropped by omitempty keep their stale value")
	var fresh vhSelfT
	verifrt.Assert(json.Unmarshal(enc2, &fresh) == nil && len(fresh.Ps) == 1 && fresh.Ps[0] != p0 && len(fresh.Ps[0].A) == 0 && fresh.S == "" && fresh.Ps[0].N == n2, "a fresh target sees only the document")
	verifrt.Reach("end")
}
