package seat_manager

// Encoder self-tests (translation validation of executor features that the code base
// itself does not exercise today but realistic changes do). Each runs symbolically and,
// through the conformance replay, natively: both must agree.

import "github.com/weedbox/pokertable/internal/verifrt"

var vhSelfArr [4]int

// VH_Self_Slice3: a 3-index slice limits the capacity, so append reallocates instead
// of writing through to the shared backing array; a 2-index slice writes through.
func VH_Self_Slice3() {
	k := verifrt.IntRange("k", 1, 2)
	for i := range vhSelfArr {
		vhSelfArr[i] = 0
	}
	s := vhSelfArr[:k:k]
	verifrt.Assert(len(s) == k && cap(s) == k, "3-index slice: length and capacity")
	t := append(s, 7)
	verifrt.Assert(vhSelfArr[k] == 0 && t[k] == 7 && len(t) == k+1, "append beyond a 3-index limit reallocates")
	t[0] = 5
	verifrt.Assert(vhSelfArr[0] == 0, "the reallocated slice no longer aliases the array")
	u := vhSelfArr[:k]
	v := append(u, 9)
	verifrt.Assert(vhSelfArr[k] == 9 && v[k] == 9, "append within capacity writes through")
	w := vhSelfArr[1:2:3]
	verifrt.Assert(len(w) == 1 && cap(w) == 2, "3-index slice with a low bound")
	x := append(w, 1, 2)
	x[0] = 4
	verifrt.Assert(vhSelfArr[1] != 4, "second append past the limit reallocates too")
	verifrt.Reach("end")
}
