package seat_manager

// C16 (seat manager part): every mutator touches the seat data only while
// holding the manager's mutex and releases it on every return path.

import "github.com/weedbox/pokertable/internal/verifrt"

// VH_C16_SeatLock: op 0 AssignSeats, 1 RandomAssignSeats, 2 RemoveSeats,
// 3 JoinPlayers, 4 UpdatePlayerHasChips, 5 InitPositions, 6 RotatePositions, 7 IsPlayerActive.
func VH_C16_SeatLock() {
	M := verifrt.Cfg("M")
	op := verifrt.Cfg("op")
	sm := vhArbitrarySM(M, Rule_Default)
	verifrt.Assume(!sm.IsInit || vhShapeInv(sm))
	verifrt.Assume(sm.IsInit || (sm.DealerSeatID == -1 && sm.SBSeatID == -1 && sm.BBSeatID == -1))
	idA := vhIDs[verifrt.IntRange("idA", 0, M+1)] // seated or not
	idB := vhIDs[verifrt.IntRange("idB", 0, M+1)]
	seatA := verifrt.IntRange("seatA", 0, M-1)
	seatB := verifrt.IntRange("seatB", 0, M-1)

	verifrt.Assert(!verifrt.LockHeld(&sm.mu), "lock free before the operation")
	verifrt.Watch(&sm.mu, sm)
	switch op {
	case 0:
		sm.AssignSeats(map[string]int{idA: seatA, idB: seatB})
	case 1:
		sm.RandomAssignSeats([]string{idA, idB})
	case 2:
		sm.RemoveSeats([]string{idA, idB})
	case 3:
		sm.JoinPlayers([]string{idA, idB})
	case 4:
		sm.UpdatePlayerHasChips(idA, verifrt.Bool("chipsArg"))
	case 5:
		sm.InitPositions(verifrt.Bool("random"))
	case 6:
		sm.RotatePositions()
	case 7:
		sm.IsPlayerActive(idA)
	}
	touched := verifrt.Unwatch()
	verifrt.Assert(touched > 0, "the operation touches shared state (watch is not vacuous)")
	verifrt.Assert(!verifrt.LockHeld(&sm.mu), "lock released on every return path")
	verifrt.Reach("end")
}
