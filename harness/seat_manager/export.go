package seat_manager

// Constructors/accessors for harnesses living in other packages (this file is
// overlay-injected, never part of the repository).

type VHSeat struct {
	Occ   bool
	ID    string
	In    bool
	Btw   bool
	Chips bool
}

// VHBuild constructs a seat manager directly in the given state.
func VHBuild(M int, rule string, seats []VHSeat, D, SB, BB int, isInit bool) SeatManager {
	sm := &seatManager{MaxSeat: M, SeatData: make(map[int]*SeatPlayer), Rule: rule,
		DealerSeatID: D, SBSeatID: SB, BBSeatID: BB, IsInit: isInit}
	for i := 0; i < M; i++ {
		if seats[i].Occ {
			sm.SeatData[i] = &SeatPlayer{ID: seats[i].ID, IsIn: seats[i].In, IsBetweenDealerBB: seats[i].Btw, HasChips: seats[i].Chips}
		} else {
			sm.SeatData[i] = nil
		}
	}
	return sm
}

// VHSeatOf reads seat i of a seat manager built by NewSeatManager or VHBuild.
func VHSeatOf(m SeatManager, i int) VHSeat {
	sm := m.(*seatManager)
	sp, ok := sm.SeatData[i]
	if !ok || sp == nil {
		return VHSeat{}
	}
	return VHSeat{Occ: true, ID: sp.ID, In: sp.IsIn, Btw: sp.IsBetweenDealerBB, Chips: sp.HasChips}
}

func VHSeatCount(m SeatManager) int { return len(m.(*seatManager).SeatData) }
func VHMaxSeat(m SeatManager) int   { return m.(*seatManager).MaxSeat }
func VHLockHeldProbe(m SeatManager) interface{} { return &m.(*seatManager).mu }
