package seat_manager

// C05 (seat-manager side): waiting flags of newcomers, continuity across rotations.

import "github.com/weedbox/pokertable/internal/verifrt"

// VH_C05_AssignFlag: a player given a seat after positions were set waits iff the
// seat lies strictly between the button and the big blind; before positions are
// set nobody waits.
func VH_C05_AssignFlag() {
	M := verifrt.Cfg("M")
	random := verifrt.Cfg("random") == 1
	sm := vhArbitrarySM(M, Rule_Default)
	verifrt.Assume(!sm.IsInit || vhShapeInv(sm))
	verifrt.Assume(sm.IsInit || (sm.DealerSeatID == -1 && sm.SBSeatID == -1 && sm.BBSeatID == -1))
	p := vhCapture(sm)
	seat := verifrt.IntRange("seat", 0, M-1)
	var err error
	if random {
		err = sm.RandomAssignSeats([]string{"newcomer"})
	} else {
		err = sm.AssignSeats(map[string]int{"newcomer": seat})
	}
	if err == nil {
		verifrt.Reach("seated")
		got, e2 := sm.GetSeatID("newcomer")
		verifrt.Assert(e2 == nil && got >= 0 && got < M, "newcomer has a seat inside the table")
		if !random {
			verifrt.Assert(got == seat, "newcomer sits on the requested seat")
		}
		verifrt.Assert(!p.seats[got].occ, "the seat was free")
		sp := sm.SeatData[got]
		want := sm.IsInit && vhStrictlyBetween(M, p.D, p.BB, got)
		verifrt.Assert(sp.IsBetweenDealerBB == want, "newcomer waits for the big blind iff seated strictly between button and big blind after positions were set")
		verifrt.Assert(!sp.IsIn && sp.HasChips, "newcomer starts not seated-in, with chips")
	}
	verifrt.Reach("end")
}

// VH_C05_RotateContinuity: a player dealt into one hand who still has chips and
// stays seated is dealt into the next.
func VH_C05_RotateContinuity() {
	M := verifrt.Cfg("M")
	sm := vhArbitrarySM(M, Rule_Default)
	verifrt.Assume(sm.IsInit)
	verifrt.Assume(vhShapeInv(sm))
	p := vhCapture(sm)
	err := sm.RotatePositions()
	if err == nil {
		for s := 0; s < M; s++ {
			if p.active(s) {
				verifrt.Assert(vhPostActive(sm, s), "dealt in before, still seated with chips: dealt in again")
			}
		}
		// a waiting / newly eligible seat is dealt in iff it is not strictly between old SB seat and new BB seat
		for s := 0; s < M; s++ {
			if p.eligible(s) && !p.active(s) {
				verifrt.Assert(sm.SeatData[s].IsIn && sm.SeatData[s].HasChips, "eligibility is not touched by the rotation")
			}
		}
		// "on the same terms as a newcomer": a seat whose occupant cannot be dealt in at all
		// (busted, or not seated-in yet) leaves the rotation with the waiting flag a newcomer
		// taking that seat would get — strictly between the new button and the new big blind
		// (the button of that test is the previous small-blind seat, except after a heads-up
		// hand that grows into a ring, where it is the new dealer seat) — so that a later
		// re-buy / join makes him eligible on exactly a newcomer's terms
		preHU := p.D == p.SB && p.BB != p.D
		postActive := 0
		for s := 0; s < M; s++ {
			if vhPostActive(sm, s) {
				postActive++
			}
		}
		button := p.SB
		if preHU && postActive >= 3 {
			button = sm.DealerSeatID
		}
		for s := 0; s < M; s++ {
			if p.seats[s].occ && !p.eligible(s) {
				want := vhStrictlyBetween(M, button, sm.BBSeatID, s)
				verifrt.Assert(sm.SeatData[s].IsBetweenDealerBB == want, "a busted or not yet seated-in occupant leaves the rotation with a newcomer's waiting flag for his seat")
			}
		}
	}
	verifrt.Reach("end")
}

// VH_C05_WaitBound: a seated-in player with chips is dealt into at least one of
// any `hands` consecutive hands (successful rotations), whatever happens on the
// other seats in between (busts, re-buys, sit-outs, departures, one arrival per gap).
func VH_C05_WaitBound() {
	M := verifrt.Cfg("M")
	hands := verifrt.Cfg("hands")
	sm := vhArbitrarySM(M, Rule_Default)
	verifrt.Assume(sm.IsInit && vhShapeInv(sm))
	x := verifrt.IntRange("x", 0, M-1)
	// warm-up: the window starts right after a dealt hand (a successful rotation from an
	// arbitrary shape-invariant state), so the waiting flags are ones a rotation really
	// produces; x may be busted / absent during the warm-up and is seated-in with chips
	// from then on
	verifrt.Assume(sm.RotatePositions() == nil)
	verifrt.Assume(sm.SeatData[x] != nil && sm.SeatData[x].IsIn)
	if verifrt.Bool("x.rebuys") {
		sm.SeatData[x].HasChips = true
	}
	verifrt.Assume(sm.SeatData[x].HasChips)
	dealt := false
	for h := 0; h < hands; h++ {
		err := sm.RotatePositions()
		// only hands that are actually dealt count
		verifrt.Assume(err == nil)
		if vhPostActive(sm, x) {
			dealt = true
		}
		if h == hands-1 {
			break
		}
		// arbitrary events on the other seats before the next hand
		for s := 0; s < M; s++ {
			if s == x || sm.SeatData[s] == nil {
				continue
			}
			if verifrt.BoolI("gap.leave"+vhIDs[h], s) {
				sm.SeatData[s] = nil
			} else {
				sm.SeatData[s].IsIn = verifrt.BoolI("gap.in"+vhIDs[h], s)
				sm.SeatData[s].HasChips = verifrt.BoolI("gap.chips"+vhIDs[h], s)
			}
		}
		if verifrt.BoolI("gap.arrival", h) {
			seat := verifrt.IntRangeI("gap.seat", h, 0, M-1)
			if sm.AssignSeats(map[string]int{"n" + vhIDs[h]: seat}) == nil && verifrt.BoolI("gap.join", h) {
				sm.JoinPlayers([]string{"n" + vhIDs[h]})
			}
		}
	}
	verifrt.Assert(dealt, "a seated-in player with chips never misses this many hands in a row")
	verifrt.Reach("end")
}
