package pokertable

// C07 — table status follows its life cycle; one hand at a time; hands are numbered.

import (
	"time"

	"github.com/weedbox/pokertable/internal/verifrt"
	"github.com/weedbox/pokertable/seat_manager"
)

// vhFlakySM wraps a real seat manager: position (re)computation succeeds or is
// refused by an arbitrary schedule and, when it succeeds, leaves the buttons
// where the wrapped (already positioned) manager has them.  Everything else is
// answered by the real manager.
type vhFlakySM struct {
	seat_manager.SeatManager
	calls int
}

func (s *vhFlakySM) step() error {
	k := s.calls
	s.calls++
	// refusals are limited to the first R attempts (bound of the explored fault schedules)
	if k < verifrt.Cfg("R") && verifrt.BoolI("sm.refuse", k) {
		return seat_manager.ErrUnableToRotatePositions
	}
	return nil
}
func (s *vhFlakySM) InitPositions(isRandom bool) error { return s.step() }
func (s *vhFlakySM) RotatePositions() error            { return s.step() }

// vhStandbyWorld: a table between hands with an already positioned seat manager
// (invariant K), wrapped so that position computation may be refused.
func vhStandbyWorld(n, M int) (*vhWorld, *vhFlakySM) {
	vhConcreteLayout = true
	w := vhOpenedWorld(n, M)
	te := w.te
	for _, p := range te.table.State.PlayerStates {
		p.IsParticipated = verifrt.BoolI("part0", 0) // stale flags: openGame recomputes them
	}
	fs := &vhFlakySM{SeatManager: te.sm}
	te.sm = fs
	return w, fs
}

// VH_C07_Open: tableGameOpen from every between-hands situation.
func VH_C07_Open() {
	n := verifrt.Cfg("n")
	M := verifrt.Cfg("M")
	w, fs := vhStandbyWorld(n, M)
	te := w.te
	st := te.table.State
	te.isReleased = verifrt.Bool("released")
	hasHand := verifrt.Bool("hasHand")
	if hasHand {
		st.GameState = vhArbitraryGS("gs", 2)
	}
	status0, gc0 := st.Status, st.GameCount
	blindsSet := st.BlindState.IsSet()
	breaking := st.BlindState.IsBreaking()
	closed := status0 == TableStateStatus_TableClosed
	running := status0 == TableStateStatus_TableGameOpened || status0 == TableStateStatus_TableGamePlaying || status0 == TableStateStatus_TableGameSettled
	snap := verifrt.Snapshot(te.table)
	oldTable := te.table

	err := te.tableGameOpen()

	opened := len(w.bk.calls) > 0
	if hasHand {
		verifrt.Reach("hand exists")
		verifrt.Assert(err == nil && !opened && te.table == oldTable && verifrt.SameState(snap, te.table), "a new hand never opens while another is unsettled: no-op")
	} else if opened {
		verifrt.Reach("opened")
		verifrt.Assert(err == nil, "opening succeeds")
		verifrt.Assert(!closed && !te.isReleased, "no hand opens after the table has been closed or released")
		verifrt.Assert(!running, "no second hand opens while one has been opened and is not settled")
		verifrt.Assert(blindsSet && !breaking, "no hand opens before blinds are set or while the level is a break")
		verifrt.Assert(len(w.bk.calls) == 1 && w.bk.calls[0].kind == "create", "exactly one hand is created")
		verifrt.Assert(te.table.State.Status == TableStateStatus_TableGamePlaying, "status playing once the hand is started")
		verifrt.Assert(te.table.State.GameCount == gc0+1, "each opened hand raises the game count by exactly one")
		verifrt.Assert(fs.calls >= 1 && fs.calls <= 11, "positions computed once per attempt, at most 1 + 10 retries")
	} else {
		verifrt.Reach("not opened")
		verifrt.Assert(te.table == oldTable && te.table.State.GameCount == gc0 && te.table.State.Status == status0, "no hand opened: table, status and game count stay")
		// liveness of the retry: refused position computations (at most R < 10 here) are retried,
		// so a table that is neither closed, released, mid-hand, without blinds nor on a break opens
		verifrt.Assert(closed || te.isReleased || running || !blindsSet || breaking, "a refused position computation is retried: the hand opens once the refusals stop (within ten retries)")
	}
	verifrt.Reach("end")
}

// VH_C07_Twice: two open triggers with no state delivery in between open one hand.
func VH_C07_Twice() {
	n := verifrt.Cfg("n")
	M := verifrt.Cfg("M")
	w, _ := vhStandbyWorld(n, M)
	te := w.te
	st := te.table.State
	verifrt.Assume(st.Status == TableStateStatus_TableGameStandby && st.BlindState.IsSet() && !st.BlindState.IsBreaking())
	verifrt.Assume(!verifrt.BoolI("sm.refuse", 0))
	gc0 := st.GameCount
	err1 := te.tableGameOpen()
	verifrt.Assert(err1 == nil && len(w.bk.calls) == 1 && te.table.State.GameCount == gc0+1, "first trigger opens the hand")
	w.bk.tag, w.bk.tagN = "bk1", 1
	err2 := te.tableGameOpen()
	verifrt.Assert(err2 == nil, "second trigger is harmless")
	verifrt.Assert(len(w.bk.calls) == 1 && te.table.State.GameCount == gc0+1, "a second trigger before the first hand's state arrives does not open another hand")
	verifrt.Reach("end")
}

// VH_C07_Reset: continueGame resets the per-hand fields.
func VH_C07_Reset() {
	n := verifrt.Cfg("n")
	M := verifrt.Cfg("M")
	m := verifrt.Cfg("m")
	w := vhNewWorld(n, M, m, true)
	te := w.te
	st := te.table.State
	st.LastPlayerGameAction = &TablePlayerGameAction{PlayerID: "p0"}
	st.NextBBOrderPlayerIDs = []string{"p0"}
	for i, p := range st.PlayerStates {
		p.Positions = []string{vhPickI("pos0", i, vhAllPositions)}
	}
	gc := st.GameCount
	// the continue handler itself is C08's subject: here the table is closed, so it returns at once
	st.Status = TableStateStatus_TableGameSettled
	te.table.Meta.Mode = CompetitionMode_MTT
	closeAfter := verifrt.Bool("closeDuringInterval")
	_ = closeAfter
	err := te.continueGame([]*TablePlayerState{})
	verifrt.Assert(err == nil, "continueGame succeeds")
	st = te.table.State
	verifrt.Assert(st.GameState == nil && len(st.GamePlayerIndexes) == 0 && st.CurrentActionEndAt == 0 && st.LastPlayerGameAction == nil && len(st.NextBBOrderPlayerIDs) == 0, "per-hand fields reset between hands")
	zero := NewPlayerGameStatistics()
	for _, p := range st.PlayerStates {
		verifrt.Assert(len(p.Positions) == 0 && p.GameStatistics == zero, "labels and statistics cleared before the next hand")
	}
	verifrt.Assert(st.GameCount == gc, "continue does not touch the game count")
	verifrt.Assert(st.Status == TableStateStatus_TableGameStandby || st.Status == TableStateStatus_TablePausing, "after settlement the table is standby or pausing")
	verifrt.Reach("end")
}

// VH_C07_OpenRetry: the blind level changes while tableGameOpen sleeps between
// two attempts (UpdateBlind takes no lock): the retry must look at the level in
// force then. The first attempt fails because the position computation is refused.
func VH_C07_OpenRetry() {
	n := verifrt.Cfg("n")
	M := verifrt.Cfg("M")
	w, _ := vhStandbyWorld(n, M)
	te := w.te
	st := te.table.State
	verifrt.Assume(st.Status == TableStateStatus_TableGameStandby && !te.isReleased)
	verifrt.Assume(st.BlindState.IsSet() && !st.BlindState.IsBreaking())
	verifrt.Assume(verifrt.BoolI("sm.refuse", 0)) // first attempt refused -> retry loop
	gc0 := st.GameCount
	lv, a, d, sb, bb := verifrt.IntRange("nb.level", -1, 2), verifrt.Int64("nb.ante"), verifrt.Int64("nb.dealer"), verifrt.Int64("nb.sb"), verifrt.Int64("nb.bb")
	env := verifrt.Cfg("env") // what arrives during the first retry sleep: 0 blind update, 1 close, 2 release, 3 join, 4 add-on
	who := verifrt.IntRange("env.who", 0, n-1)
	amount := verifrt.Int64("env.amount")
	verifrt.Assume(amount >= 0 && amount < 1<<40)
	bank0 := st.PlayerStates[who].Bankroll
	verifrt.DuringSleep(1, 3*time.Second, func() {
		switch env {
		case 0:
			te.UpdateBlind(lv, a, d, sb, bb)
		case 1:
			te.CloseTable()
		case 2:
			te.ReleaseTable()
		case 3:
			// the player the retry is waiting for sits in (the engine lock is held by the retry
			// loop all the while: an operation that needs it would block until the loop gives up)
			te.PlayerJoin(vhIDs[who])
		case 4:
			te.PlayerRedeemChips(JoinPlayer{PlayerID: vhIDs[who], RedeemChips: amount})
		}
	})
	err := te.tableGameOpen()
	opened := len(w.bk.calls) > 0
	bs := te.table.State.BlindState
	if env >= 3 {
		idx := te.table.FindPlayerIdx(vhIDs[who])
		verifrt.Assert(idx >= 0, "the player is still at the table")
		if env == 3 {
			verifrt.Assert(te.table.State.PlayerStates[idx].IsIn, "a player who sat in while the open was being retried is seated-in afterwards")
		} else {
			verifrt.Assert(te.table.State.PlayerStates[idx].Bankroll == bank0+amount, "chips added while the open was being retried are on the live table afterwards")
			if opened {
				for k, pi := range te.table.State.GamePlayerIndexes {
					if pi == idx {
						verifrt.Assert(w.bk.calls[0].opts.Players[k].Bankroll == bank0+amount, "the hand starts with the topped-up stack")
					}
				}
			}
		}
		verifrt.Reach("end")
		return
	}
	if env != 0 {
		verifrt.Assert(!opened && te.table.State.GameCount == gc0 && te.table.State.Status != TableStateStatus_TableGamePlaying, "no hand opens after the table was closed or released while the open was being retried")
		verifrt.Reach("end")
		return
	}
	if opened {
		verifrt.Reach("opened on retry")
		verifrt.Assert(err == nil && te.table.State.GameCount == gc0+1, "the retry opens one hand")
		verifrt.Assert(bs.Level != -1, "no hand opens while the blind level is a break (level changed before the retry)")
		verifrt.Assert(bs.IsSet(), "no hand opens before blinds are set (level changed before the retry)")
		verifrt.Assert(w.bk.calls[0].opts.Ante == a && w.bk.calls[0].opts.Blind.SB == sb && w.bk.calls[0].opts.Blind.BB == bb, "the hand is played at the blinds in force when it opened")
	} else {
		verifrt.Reach("not opened")
		verifrt.Assert(te.table.State.GameCount == gc0 && te.table.State.Status == TableStateStatus_TableGameStandby, "no hand opened: status and count stay")
	}
	verifrt.Reach("end")
}


// VH_C07_GateFault: the asynchronous trigger (open-game gate -> callback installed by
// CreateTable -> tableGameOpen) with a hand engine that refuses to create the hand: the
// failure is reported, the opened-but-unstarted hand stays the table's one unsettled hand
// (status opened, count consumed) and no further set-up opens another hand on top of it.
func VH_C07_GateFault() {
	n := verifrt.Cfg("n")
	M := verifrt.Cfg("M")
	vhConcreteLayout = true
	w := vhOpenedWorld(n, M)
	te := w.te
	st := te.table.State
	verifrt.Assume(st.Status == TableStateStatus_TableGameStandby && st.BlindState.IsSet() && !st.BlindState.IsBreaking() && !te.isReleased)
	gc := st.GameCount
	parts := map[string]int{}
	for i, p := range st.PlayerStates {
		parts[p.PlayerID] = i
	}
	og := te.ogm.(interface {
		ModelStepped(bool)
		ModelSettle(int) bool
	})
	og.ModelStepped(true)
	w.bk.faults = true
	w.bk.tagN = 0
	verifrt.Assume(verifrt.BoolI("bk.fail", 0)) // the creation of the hand is refused
	errs0 := w.rec.errors
	te.SetUpTableGame(gc+1, parts)
	fired := og.ModelSettle(n + 1)
	verifrt.Assert(fired, "the gate completes at the timeout")
	verifrt.RunPendingNamed("emitErrorEvent")
	verifrt.Assert(len(w.bk.calls) == 1 && w.bk.calls[0].kind == "create", "the hand engine was asked once")
	verifrt.Assert(w.rec.errors == errs0+1, "the refused creation is reported through the table error callback")
	verifrt.Assert(te.table.State.Status == TableStateStatus_TableGameOpened && te.table.State.GameCount == gc+1, "the status never moves from opened back to standby: the hand that could not be started remains the table's unsettled hand")
	// the next set-up must not open a second hand on top of it
	w.bk.tagN = 1
	te.SetUpTableGame(gc+2, parts)
	og.ModelSettle(n + 1)
	verifrt.Assert(len(w.bk.calls) == 1 && te.table.State.GameCount == gc+1, "no new hand opens while another is unsettled")
	verifrt.Reach("end")
}
