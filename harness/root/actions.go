package pokertable

// Player<Action> obligations with the nondeterministic backend:
// C10 O-1 (who may act, refused actions leave no trace, accepted actions are
// published), C13 O-1/O-2 (failing backend), C14 O-1 (statistics deltas),
// C02 O-4 (index translation).

import (
	"github.com/weedbox/pokerface"
	"github.com/weedbox/pokertable/internal/verifrt"
)

const (
	vhActFold = iota
	vhActCheck
	vhActCall
	vhActAllin
	vhActBet
	vhActRaise
	vhActPass
	vhActReady
	vhActPay
)

var vhActNames = []string{WagerAction_Fold, WagerAction_Check, WagerAction_Call, WagerAction_AllIn, WagerAction_Bet, WagerAction_Raise, "pass", Action_Ready, Action_Pay}
var vhBackendKinds = []string{"fold", "check", "call", "allin", "bet", "raise", "pass", "", "pay"}

func vhDo(te *tableEngine, act int, id string, chips int64) error {
	switch act {
	case vhActFold:
		return te.PlayerFold(id)
	case vhActCheck:
		return te.PlayerCheck(id)
	case vhActCall:
		return te.PlayerCall(id)
	case vhActAllin:
		return te.PlayerAllin(id)
	case vhActBet:
		return te.PlayerBet(id, chips)
	case vhActRaise:
		return te.PlayerRaise(id, chips)
	case vhActPass:
		return te.PlayerPass(id)
	case vhActReady:
		return te.PlayerReady(id)
	}
	return te.PlayerPay(id, chips)
}

// vhActionWorld: table with n players, hand with m participants, symbolic
// caller (one of the seated players or a stranger), the action kind comes from
// the configuration so that each kind is its own (smaller) query family.
func vhActionWorld(faults bool) (*vhWorld, int, string, int64, int) {
	n := verifrt.Cfg("n")
	m := verifrt.Cfg("m")
	w := vhNewWorld(n, verifrt.Cfg("M"), m, true)
	w.bk.faults = faults
	w.g.rg.ModelSetStepped(true)
	// the hand's ready group: arbitrary subset of participants asked, started or not
	for i := 0; i < m; i++ {
		if verifrt.BoolI("rg.member", i) {
			w.g.rg.Add(int64(i), verifrt.BoolI("rg.ready", i))
		}
	}
	if verifrt.Bool("rg.started") {
		w.g.rg.Start()
	}
	act := verifrt.Cfg("act")
	callerIdx := verifrt.IntRange("caller", 0, n) // n = stranger
	caller := "stranger"
	if callerIdx < n {
		caller = vhIDs[callerIdx]
	}
	chips := verifrt.Int64("chips")
	return w, act, caller, chips, callerIdx
}

// expected game index of the caller: position of callerIdx in GamePlayerIndexes
func vhExpectedGameIdx(w *vhWorld, callerIdx int) int {
	for k, idx := range w.te.table.State.GamePlayerIndexes {
		if idx == callerIdx {
			return k
		}
	}
	return -1
}

func vhAllowed(w *vhWorld, gi int, a string) bool {
	if gi < 0 || gi >= len(w.g.gs.Players) {
		return false
	}
	return vhHasString(w.g.gs.Players[gi].AllowedActions, a)
}

// VH_C10_Action: one Player<Action> call from an arbitrary table/hand state.
func VH_C10_Action() {
	w, act, caller, chips, callerIdx := vhActionWorld(false)
	te := w.te
	gi := vhExpectedGameIdx(w, callerIdx)
	gsBefore := w.g.gs
	playing := te.table.State.Status == TableStateStatus_TableGamePlaying
	isTurn := gi >= 0 && w.g.gs.Status.CurrentPlayer == gi
	ev := w.g.gs.Status.CurrentEvent
	collect := ev == "AnteRequested" || ev == "BlindsRequested"
	knownEvent := ev != "NoSuchEvent"

	// what the property allows
	var legit bool
	switch act {
	case vhActReady:
		legit = playing && gi >= 0 && vhAllowed(w, gi, Action_Ready)
	case vhActPay:
		legit = playing && gi >= 0 && vhAllowed(w, gi, Action_Pay) && knownEvent
	case vhActPass:
		legit = playing && isTurn && vhAllowed(w, gi, "pass")
	default:
		legit = playing && isTurn
	}
	// the property additionally wants the action kind to be allowed for play moves
	strict := legit
	if act <= vhActPass {
		strict = legit && vhAllowed(w, gi, vhActNames[act])
	}

	snapT := verifrt.Snapshot(te.table)
	snapG := verifrt.Snapshot(w.g.gs)
	queued := w.g.rg.ModelQueueLen()
	lastBefore := te.table.State.LastPlayerGameAction

	err := vhDo(te, act, caller, chips)

	if err != nil {
		verifrt.Reach("refused")
		verifrt.Assert(len(w.bk.calls) == 0, "refused action: backend not called")
		verifrt.Assert(verifrt.SameState(snapT, te.table), "refused action: table unchanged")
		verifrt.Assert(w.g.gs == gsBefore && verifrt.SameState(snapG, w.g.gs), "refused action: hand state unchanged")
		verifrt.Assert(w.rec.actions == 0 && w.rec.updated == 0, "refused action: no event")
		verifrt.Assert(w.g.rg.ModelQueueLen() == queued, "refused action: no readiness signal")
		verifrt.Assert(!legit, "an action the hand is waiting for is not refused")
	} else {
		verifrt.Reach("accepted")
		verifrt.Assert(legit, "accepted only from a player the hand is waiting on, while a hand is being played")
		_ = strict // decided with the real hand engine in VH_C10_ActionEngine (the backend here accepts anything)
		toRG := act == vhActReady || (act == vhActPay && collect)
		if toRG {
			verifrt.Assert(len(w.bk.calls) == 0 && w.g.rg.ModelQueueLen() == queued+(func() int {
				if w.g.rg.ModelStarted() {
					return 1
				}
				return 0
			})(), "ready / ante-blind pay: exactly one readiness signal, no backend call")
		} else {
			verifrt.Assert(len(w.bk.calls) == 1 && w.bk.calls[0].kind == vhBackendKinds[act] && w.bk.calls[0].gs == gsBefore, "applied once: one backend call of that kind on the current hand state")
			if act == vhActBet || act == vhActRaise || act == vhActPay {
				verifrt.Assert(w.bk.calls[0].chips == chips, "amount forwarded unchanged")
			}
		}
		la := te.table.State.LastPlayerGameAction
		verifrt.Assert(la != nil && la != lastBefore, "accepted action is published as last player action")
		seat := te.table.State.PlayerStates[callerIdx].Seat
		verifrt.Assert(la.PlayerID == caller && la.Seat == seat && la.Action == vhActNames[act] && la.GameCount == te.table.State.GameCount && la.TableID == te.table.ID, "last action names player, seat, action and hand")
		if act <= vhActPass {
			verifrt.Assert(w.rec.actions == 1 && w.rec.lastAction.PlayerID == caller && w.rec.lastAction.Seat == seat && w.rec.lastAction.Action == vhActNames[act] && w.rec.lastAction.Round == la.Round && w.rec.lastAction.GameID == la.GameID, "one action event with the same content")
		}
	}
	verifrt.Reach("end")
}

// VH_C13_ActionFault: the backend fails while applying the action.
func VH_C13_ActionFault() {
	w, act, caller, chips, _ := vhActionWorld(true)
	te := w.te
	gsBefore := w.g.gs
	snapT := verifrt.Snapshot(te.table)
	snapG := verifrt.Snapshot(w.g.gs)
	qBefore := len(w.g.incomingStates)

	err := vhDo(te, act, caller, chips)

	failed := len(w.bk.calls) >= 1 && verifrt.BoolI("bk.fail", 0)
	if failed {
		verifrt.Reach("backend failed")
		verifrt.Assert(len(w.bk.calls) == 1, "a failed backend call is not followed by another request on the caller's behalf")
		verifrt.Assert(err == vhErrBackend, "caller gets the backend's error")
		verifrt.Assert(verifrt.SameState(snapT, te.table), "failed backend call: table exactly as before")
		verifrt.Assert(w.g.gs == gsBefore && verifrt.SameState(snapG, w.g.gs), "failed backend call: hand exactly as before")
		verifrt.Assert(len(w.g.incomingStates) == qBefore, "failed backend call: no state queued")
		verifrt.Assert(w.rec.actions == 0 && w.rec.updated == 0 && w.rec.stateEvents == 0, "failed backend call: no event")
		// the same action can be submitted again: it reaches the backend again with the same state
		w.bk.tag, w.bk.tagN = "bk1", 1
		err2 := vhDo(te, act, caller, chips)
		verifrt.Assert(len(w.bk.calls) == 2 && w.bk.calls[1].kind == w.bk.calls[0].kind && w.bk.calls[1].gs == gsBefore && w.bk.calls[1].chips == w.bk.calls[0].chips, "retry reaches the backend with the same hand state")
		if !verifrt.BoolI("bk.fail", 1) {
			verifrt.Assert(err2 == nil, "retry succeeds when the backend recovers")
		}
	}
	verifrt.Reach("end")
}

// I14 of DESIGN.md for one player.
func vhStatsInv(s *TablePlayerGameStatistics) bool {
	return s.ActionTimes >= 0 && s.RaiseTimes >= 0 && s.CallTimes >= 0 && s.CheckTimes >= 0 &&
		s.RaiseTimes <= s.ActionTimes && s.CallTimes <= s.ActionTimes && s.CheckTimes <= s.ActionTimes && s.CallTimes+s.CheckTimes <= s.ActionTimes &&
		(!s.IsVPIP || s.IsVPIPChance) && (!s.IsPFR || s.IsPFRChance) && (!s.IsATS || s.IsATSChance) &&
		(!s.Is3B || s.Is3BChance) && (!s.IsFt3B || s.IsFt3BChance) && (!s.IsCheckRaise || s.IsCheckRaiseChance) &&
		(!s.IsCBet || s.IsCBetChance) && (!s.IsFtCB || s.IsFtCBChance) && (!s.IsShowdownWinning || s.ShowdownWinningChance) &&
		(s.IsFold == (s.FoldRound != ""))
}

func vhTableStatsInv(te *tableEngine) bool {
	threeB := 0
	for _, p := range te.table.State.PlayerStates {
		if !vhStatsInv(&p.GameStatistics) {
			return false
		}
		if p.GameStatistics.Is3B {
			threeB++
		}
	}
	return threeB <= 1
}

// VH_C14_Action: statistics after one wager action from an arbitrary state
// satisfying I14.
func VH_C14_Action() {
	w, act, caller, chips, callerIdx := vhActionWorld(true)
	te := w.te
	verifrt.Assume(vhTableStatsInv(te))
	for _, p := range te.table.State.PlayerStates {
		verifrt.Assume(p.GameStatistics.ActionTimes < 1<<30) // no counter overflow within a hand
	}
	n := len(te.table.State.PlayerStates)
	pre := make([]TablePlayerGameStatistics, 0)
	for _, p := range te.table.State.PlayerStates {
		pre = append(pre, p.GameStatistics)
	}
	err := vhDo(te, act, caller, chips)
	if err != nil {
		for i := 0; i < n; i++ {
			verifrt.Assert(te.table.State.PlayerStates[i].GameStatistics == pre[i], "refused or failed action leaves all statistics alone")
		}
	} else {
		verifrt.Reach("accepted")
		newRound := te.game.GetGameState().Status.Round
		for i := 0; i < n; i++ {
			s := te.table.State.PlayerStates[i].GameStatistics
			o := pre[i]
			if i != callerIdx {
				// only the 3-bet flag of other players may be cleared
				o.Is3B = s.Is3B
				verifrt.Assert(s == o && (!s.Is3B || pre[i].Is3B), "other players' statistics unchanged (3-bet flag may only be cleared)")
				continue
			}
			wantActions, wantCalls, wantChecks := o.ActionTimes, o.CallTimes, o.CheckTimes
			if act <= vhActRaise {
				wantActions++
			}
			if act == vhActCall {
				wantCalls++
			}
			if act == vhActCheck {
				wantChecks++
			}
			verifrt.Assert(s.ActionTimes == wantActions && s.CallTimes == wantCalls && s.CheckTimes == wantChecks, "counters grow by exactly the accepted action")
			verifrt.Assert(s.RaiseTimes == o.RaiseTimes || (s.RaiseTimes == o.RaiseTimes+1 && (act == vhActRaise || act == vhActBet || act == vhActAllin)), "raise counter grows by at most one, and only on bet/raise/all-in")
			if act == vhActFold {
				verifrt.Assert(s.IsFold && s.FoldRound == newRound, "fold sets the fold flag and round")
			} else {
				verifrt.Assert(s.IsFold == o.IsFold && s.FoldRound == o.FoldRound, "only a fold touches the fold flag and round")
			}
		}
		// I14 is preserved (fold round must be a real round for the fold flag equivalence)
		if act != vhActFold || newRound != "" {
			verifrt.Assert(vhTableStatsInv(te), "statistics invariant preserved: counters consistent, every did-flag implies its chance flag, at most one 3-bet holder")
		}
	}
	verifrt.Reach("end")
}

// vhEngineHand: a betting-round hand state under the hand-state invariant P(gs)
// of DESIGN.md, the current player's allowed actions computed by the real hand
// engine; the engine's follow-up after an accepted action (next player, pots,
// next round) is cut off by an empty current event (pokerface Resume is then a
// no-op), what remains is the engine's acceptance logic for the action.
func vhEngineHand(m int) *pokerface.GameState {
	gs := &pokerface.GameState{GameID: "g1"}
	gs.Meta.Limit = "no"
	gs.Meta.Blind = pokerface.BlindSetting{SB: verifrt.Int64("blind.sb"), BB: verifrt.Int64("blind.bb")}
	verifrt.Assume(gs.Meta.Blind.SB >= 0 && gs.Meta.Blind.BB > 0 && gs.Meta.Blind.SB < 1<<40 && gs.Meta.Blind.BB < 1<<40)
	gs.Status.Round = vhPick("round", []string{GameRound_Preflop, GameRound_Flop, GameRound_Turn, GameRound_River})
	gs.Status.CurrentEvent = ""
	gs.Status.CurrentPlayer = verifrt.IntRange("cur", 0, m-1)
	gs.Status.CurrentRaiser = verifrt.IntRange("raiser", 0, m-1)
	gs.Status.CurrentWager = verifrt.Int64("curWager")
	gs.Status.PreviousRaiseSize = verifrt.Int64("prevRaise")
	gs.Status.MiniBet = gs.Meta.Blind.BB
	verifrt.Assume(gs.Status.CurrentWager >= 0 && gs.Status.PreviousRaiseSize >= 0 && gs.Status.CurrentWager < 1<<40 && gs.Status.PreviousRaiseSize < 1<<40)
	verifrt.Assume(gs.Status.CurrentWager == 0 || gs.Status.PreviousRaiseSize > 0)
	for k := 0; k < m; k++ {
		p := &pokerface.PlayerState{Idx: k, AllowedActions: []string{}, Positions: []string{}, Combination: &pokerface.CombinationInfo{}}
		if k == 0 {
			p.Positions = []string{Position_Dealer}
		}
		p.Fold = verifrt.BoolI("fold", k)
		p.Acted = verifrt.BoolI("acted", k)
		p.StackSize = verifrt.Int64I("stack", k)
		p.Wager = verifrt.Int64I("wagerp", k)
		p.Pot = verifrt.Int64I("pot", k)
		verifrt.Assume(p.StackSize >= 0 && p.Wager >= 0 && p.Pot >= 0 && p.StackSize < 1<<40 && p.Wager < 1<<40 && p.Pot < 1<<40)
		verifrt.Assume(p.Wager <= gs.Status.CurrentWager)
		p.InitialStackSize = p.StackSize + p.Wager
		p.Bankroll = p.InitialStackSize + p.Pot
		gs.Players = append(gs.Players, p)
	}
	eng := pokerface.NewGameFromState(gs)
	cur := gs.Status.CurrentPlayer
	for k := 0; k < m; k++ {
		if k == cur {
			gs.Players[k].AllowedActions = eng.GetAvailableActions(eng.Player(k))
		}
	}
	return gs
}

// VH_C10_ActionEngine: play moves with the real hand engine behind the table.
func VH_C10_ActionEngine() {
	n := verifrt.Cfg("n")
	m := verifrt.Cfg("m")
	act := verifrt.Cfg("act") // 0..6: fold check call allin bet raise pass
	w := vhNewWorld(n, verifrt.Cfg("M"), m, true)
	te := w.te
	real := NewNativeGameBackend()
	te.gameBackend = real
	gs := vhEngineHand(m)
	w.g.backend = real
	w.g.gs = gs
	te.table.State.GameState = gs
	callerIdx := verifrt.IntRange("caller", 0, n)
	caller := "stranger"
	if callerIdx < n {
		caller = vhIDs[callerIdx]
	}
	chips := verifrt.Int64("chips")
	verifrt.Assume(chips >= 0 && chips < 1<<40)
	gi := vhExpectedGameIdx(w, callerIdx)
	playing := te.table.State.Status == TableStateStatus_TableGamePlaying
	isTurn := gi >= 0 && gs.Status.CurrentPlayer == gi
	allowedKind := isTurn && vhHasString(gs.Players[gs.Status.CurrentPlayer].AllowedActions, vhActNames[act])
	snapT := verifrt.Snapshot(te.table)
	snapG := verifrt.Snapshot(gs)

	err := vhDo(te, act, caller, chips)

	if err == nil {
		verifrt.Reach("accepted")
		verifrt.Assert(playing && isTurn, "accepted only from the player whose turn it is, while a hand is being played")
		verifrt.Assert(allowedKind, "accepted only if the hand currently allows that action for the player")
		la := te.table.State.LastPlayerGameAction
		verifrt.Assert(la != nil && la.PlayerID == caller && la.Action == vhActNames[act], "accepted action is published as the last player action")
	} else {
		verifrt.Reach("refused")
		verifrt.Assert(verifrt.SameState(snapT, te.table), "refused action: table unchanged")
		verifrt.Assert(w.g.gs == gs && verifrt.SameState(snapG, gs), "refused action: hand unchanged")
		verifrt.Assert(w.rec.actions == 0, "refused action: no event")
	}
	verifrt.Reach("end")
}

// VH_C14_Chance: when a player is asked to act only that player's chance flags
// may be raised; nothing else in anybody's statistics moves; I14 is preserved.
func VH_C14_Chance() {
	n := verifrt.Cfg("n")
	m := verifrt.Cfg("m")
	w := vhNewWorld(n, verifrt.Cfg("M"), m, true)
	te := w.te
	verifrt.Assume(vhTableStatsInv(te))
	gs := te.table.State.GameState
	pre := make([]TablePlayerGameStatistics, 0)
	for _, p := range te.table.State.PlayerStates {
		pre = append(pre, p.GameStatistics)
	}
	cur := -1
	if gs.Status.CurrentPlayer >= 0 {
		cur = te.table.State.GamePlayerIndexes[gs.Status.CurrentPlayer]
	}
	te.updateCurrentPlayerGameStatistics(gs)
	verifrt.Assert(!verifrt.LockHeld(&te.lock), "statistics update releases the engine lock")
	for i, p := range te.table.State.PlayerStates {
		s := p.GameStatistics
		o := pre[i]
		if i == cur {
			// chance flags may only go from false to true
			verifrt.Assert((s.IsVPIPChance || !o.IsVPIPChance) && (s.IsPFRChance || !o.IsPFRChance) && (s.IsATSChance || !o.IsATSChance) &&
				(s.Is3BChance || !o.Is3BChance) && (s.IsFt3BChance || !o.IsFt3BChance) && (s.IsCheckRaiseChance || !o.IsCheckRaiseChance) &&
				(s.IsCBetChance || !o.IsCBetChance) && (s.IsFtCBChance || !o.IsFtCBChance), "chance flags are only ever raised")
			o.IsVPIPChance, o.IsPFRChance, o.IsATSChance, o.Is3BChance = s.IsVPIPChance, s.IsPFRChance, s.IsATSChance, s.Is3BChance
			o.IsFt3BChance, o.IsCheckRaiseChance, o.IsCBetChance, o.IsFtCBChance = s.IsFt3BChance, s.IsCheckRaiseChance, s.IsCBetChance, s.IsFtCBChance
		}
		verifrt.Assert(s == o, "being asked to act changes nothing but the asked player's chance flags")
	}
	verifrt.Assert(vhTableStatsInv(te), "statistics invariant preserved")
	verifrt.Reach("end")
}

// VH_C14_Showdown: showdown flags written at settlement.
func VH_C14_Showdown() {
	w, m, _ := vhSettleWorld()
	te := w.te
	gs := te.table.State.GameState
	// statistics were cleared before the hand; the showdown pair is still clear at settlement
	for _, p := range te.table.State.PlayerStates {
		p.GameStatistics.ShowdownWinningChance = false
		p.GameStatistics.IsShowdownWinning = false
	}
	notFold := 0
	best := 0
	first := true
	for k := 0; k < m; k++ {
		if !gs.Players[k].Fold {
			notFold++
			if first || gs.Players[k].Combination.Power > best {
				best = gs.Players[k].Combination.Power
				first = false
			}
		}
	}
	gpi := make([]int, m)
	copy(gpi, te.table.State.GamePlayerIndexes)
	te.settleGame()
	for k := 0; k < m; k++ {
		s := te.table.State.PlayerStates[gpi[k]].GameStatistics
		showdown := !gs.Players[k].Fold && notFold > 1
		verifrt.Assert(s.ShowdownWinningChance == showdown, "showdown chance exactly for players who reached a showdown of two or more")
		verifrt.Assert(!s.IsShowdownWinning || s.ShowdownWinningChance, "showdown win implies showdown chance")
		if showdown {
			verifrt.Assert(s.IsShowdownWinning == (gs.Players[k].Combination.Power == best), "showdown win flag exactly for the best hands at showdown")
		}
	}
	verifrt.Reach("end")
}
