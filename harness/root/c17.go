package pokertable

// C17 — manager tables are isolated, manager calls equal engine calls.

import (
	"github.com/weedbox/pokertable/internal/verifrt"
)

var vhTableIDs = []string{"t0", "t1", "t2", "t-unknown"}

func vhSameIDs(a, b []string) bool {
	return len(a) == len(b) && (len(a) == 0 || &a[0] == &b[0])
}
func vhSameJPs(a, b []JoinPlayer) bool {
	return len(a) == len(b) && (len(a) == 0 || &a[0] == &b[0])
}

// VH_C17_Forward: one manager call addressed to a symbolic table id.
func VH_C17_Forward() {
	T := 3
	op := verifrt.Cfg("op")
	m := NewManager().(*manager)
	engs := []*vhStubEngine{}
	for k := 0; k < T; k++ {
		e := &vhStubEngine{id: k, table: &Table{ID: vhTableIDs[k]}}
		engs = append(engs, e)
		m.tableEngines.Store(vhTableIDs[k], TableEngine(e))
	}
	// a host callback running inside the engine operation may look any table up through the
	// manager (every manager method starts with that lookup); what it sees is not asserted, but
	// whatever the manager remembers from it must not change the outcome below
	reentered := false
	for k := 0; k < T; k++ {
		engs[k].reenter = func() {
			if verifrt.Bool("host.reenters") && !reentered {
				reentered = true
				m.GetTableEngine(vhTableIDs[verifrt.IntRange("host.tid", 0, T)])
			}
		}
	}
	// lookups before the call under test (the manager may remember them)
	if verifrt.Bool("host.before") {
		m.GetTableEngine(vhTableIDs[verifrt.IntRange("host.tid0", 0, T)])
	}
	which := verifrt.IntRange("tid", 0, T) // T = unknown id
	tid := vhTableIDs[which]
	x := &vhMgrArgs{
		s: verifrt.Str("arg.s"), i: verifrt.Int("arg.i"),
		a: verifrt.Int64("arg.a"), b: verifrt.Int64("arg.b"), c: verifrt.Int64("arg.c"), d: verifrt.Int64("arg.d"),
		jp:  JoinPlayer{PlayerID: verifrt.Str("arg.jp.id"), RedeemChips: verifrt.Int64("arg.jp.chips"), Seat: verifrt.Int("arg.jp.seat")},
		jps: []JoinPlayer{{PlayerID: verifrt.Str("arg.jps.id"), RedeemChips: verifrt.Int64("arg.jps.chips"), Seat: verifrt.Int("arg.jps.seat")}},
		ids: []string{verifrt.Str("arg.ids0"), verifrt.Str("arg.ids1")},
		mp:  map[string]int{"x": verifrt.Int("arg.mp.x")},
	}
	// boundary shapes of the collection arguments: nil, empty, one, two
	switch verifrt.IntRange("arg.idsShape", 0, 3) {
	case 0:
		x.ids = nil
	case 1:
		x.ids = []string{}
	case 2:
		x.ids = x.ids[:1]
	}
	switch verifrt.IntRange("arg.jpsShape", 0, 2) {
	case 0:
		x.jps = nil
	case 1:
		x.jps = []JoinPlayer{}
	}
	switch verifrt.IntRange("arg.mpShape", 0, 2) {
	case 0:
		x.mp = nil
	case 1:
		x.mp = map[string]int{}
	}
	r := vhMgrCall(m, op, tid, x)
	name := vhMgrOps[op]
	noResult := name == "UpdateBlind" || name == "SetUpTableGame"

	if which == T {
		verifrt.Reach("unknown id")
		verifrt.Assert(r.err == ErrManagerTableNotFound, "unknown table id yields the table-not-found error")
		if name == "PlayerExtendActionDeadline" {
			verifrt.Assert(r.i64 == -1, "unknown table id: deadline result is -1")
		}
		for k := 0; k < T; k++ {
			verifrt.Assert(len(engs[k].calls) == 0, "unknown table id: no engine touched")
		}
	} else {
		verifrt.Reach("known id")
		for k := 0; k < T; k++ {
			if k != which {
				verifrt.Assert(len(engs[k].calls) == 0, "other tables' engines are not touched")
				continue
			}
			e := engs[k]
			verifrt.Assert(len(e.calls) == 1 && e.calls[0].name == name, "exactly one call of the same-named engine method on that table's engine")
			c := e.calls[0]
			switch name {
			case "UpdateBlind":
				verifrt.Assert(c.i == x.i && c.a == x.a && c.b == x.b && c.c == x.c && c.d == x.d, "arguments forwarded unchanged")
			case "SetUpTableGame":
				if x.mp != nil {
					x.mp["marker"] = 7
					verifrt.Assert(c.mp["marker"] == 7, "arguments forwarded unchanged (same map)")
				}
				verifrt.Assert(c.i == x.i && (c.mp == nil) == (x.mp == nil) && len(c.mp) == len(x.mp), "arguments forwarded unchanged")
			case "UpdateTablePlayers":
				verifrt.Assert(vhSameJPs(c.jps, x.jps) && vhSameIDs(c.ids, x.ids), "arguments forwarded unchanged")
				verifrt.Assert(r.mp != nil && r.mp["stub"] == k, "engine result passed through")
			case "PlayerReserve", "PlayerRedeemChips":
				verifrt.Assert(c.jp == x.jp, "arguments forwarded unchanged")
			case "PlayersLeave":
				verifrt.Assert(vhSameIDs(c.ids, x.ids), "arguments forwarded unchanged")
			case "PlayerExtendActionDeadline":
				verifrt.Assert(c.s == x.s && c.i == x.i, "arguments forwarded unchanged")
				verifrt.Assert(r.i64 == verifrt.Int64I("eng.i64", k), "engine result passed through")
			case "PlayerPay", "PlayerBet", "PlayerRaise":
				verifrt.Assert(c.s == x.s && c.a == x.a, "arguments forwarded unchanged")
			case "ReleaseTable", "PauseTable", "CloseTable", "StartTableGame":
			default:
				verifrt.Assert(c.s == x.s, "arguments forwarded unchanged")
			}
			if !noResult {
				if verifrt.BoolI("eng.err", k) {
					verifrt.Assert(r.err == vhErrEngine, "engine error passed through")
				} else {
					verifrt.Assert(r.err == nil, "engine success passed through")
				}
			} else {
				verifrt.Assert(r.err == nil, "no error for a known table")
			}
		}
		// registry: closed / released tables disappear, all others stay
		gone := (name == "CloseTable" || name == "ReleaseTable") && r.err == nil
		for k := 0; k < T; k++ {
			got, err := m.GetTableEngine(vhTableIDs[k])
			if k == which && gone {
				verifrt.Assert(err == ErrManagerTableNotFound && got == nil, "closed / released table is not found afterwards")
				verifrt.Assert(m.PlayerJoin(vhTableIDs[k], "p") == ErrManagerTableNotFound, "operations on a closed / released table yield not-found")
			} else {
				verifrt.Assert(err == nil && got == TableEngine(engs[k]), "other tables stay registered under their ids")
			}
		}
	}
	verifrt.Reach("end")
}

// VH_C17_Create: CreateTable registers a real engine under the new table's id
// with the given callbacks; other tables are unaffected.
func VH_C17_Create() {
	m := NewManager().(*manager)
	other := &vhStubEngine{id: 0, table: &Table{ID: "t0"}}
	m.tableEngines.Store("t0", TableEngine(other))
	rec := &vhRec{}
	cb := &TableEngineCallbacks{
		OnTableUpdated:            func(t *Table) { rec.updated++ },
		OnTableErrorUpdated:       func(t *Table, err error) { rec.errors++ },
		OnTableStateUpdated:       func(ev string, t *Table) { rec.stateEvents++ },
		OnTablePlayerStateUpdated: func(c, t string, ps *TablePlayerState) { rec.playerStates++ },
		OnTablePlayerReserved:     func(c, t string, ps *TablePlayerState) { rec.reserved++ },
		OnGamePlayerActionUpdated: func(a TablePlayerGameAction) { rec.actions++ },
		OnAutoGameOpenEnd:         func(c, t string) { rec.autoOpenEnd++ },
		OnReadyOpenFirstTableGame: func(c, t string, gc int, ps []*TablePlayerState) { rec.readyFirst++ },
	}
	// symbolic creation request: fresh id or the id of a live table, 0..3 auto-join players
	// (ids and seats symbolic: duplicates, seat collisions, more players than seats) — the
	// engine refuses some of these
	// fresh ids include ones with blanks / line breaks around them: an id is an opaque key
	tid := vhPick("create.tid", []string{"tnew", " tnew", "tnew\n", "t0"})
	fresh := tid != "t0"
	jn := verifrt.IntRange("create.jn", 0, 3)
	jps := []JoinPlayer{}
	for i := 0; i < jn; i++ {
		jps = append(jps, JoinPlayer{PlayerID: vhNewIDs[verifrt.IntRangeI("create.pid", i, 0, 2)], RedeemChips: 100, Seat: verifrt.IntRangeI("create.seat", i, -1, 1)})
	}
	t, err := m.CreateTable(nil, cb, TableSetting{TableID: tid, Meta: TableMeta{TableMaxSeatCount: 2, TableMinPlayerCount: 2, Rule: CompetitionRule_Default, Mode: CompetitionMode_CT},
		Blind: TableBlindState{Level: 1, SB: 10, BB: 20}, JoinPlayers: jps})
	if err != nil {
		verifrt.Reach("create refused")
		verifrt.Assert(t == nil, "refused creation returns no table")
		for _, id := range []string{"tnew", " tnew", "tnew\n"} {
			_, e1 := m.GetTableEngine(id)
			verifrt.Assert(e1 == ErrManagerTableNotFound, "a refused creation registers nothing: the id stays not-found")
		}
		o, e2 := m.GetTableEngine("t0")
		verifrt.Assert(e2 == nil && o == TableEngine(other) && len(other.calls) == 0, "a refused creation leaves the live table of that id (and every other) in place")
		verifrt.Reach("end")
		return
	}
	verifrt.Assume(fresh) // creating over a live id is a caller error; nothing is claimed about it
	verifrt.Assert(err == nil && t != nil && t.ID == tid, "create succeeds and keeps the id it was given")
	got, err2 := m.GetTableEngine(tid)
	verifrt.Assert(err2 == nil && got != nil && got.GetTable() == t, "new engine registered under exactly the id it was created with")
	for _, id := range []string{"tnew", " tnew", "tnew\n"} {
		if id != tid {
			_, e := m.GetTableEngine(id)
			verifrt.Assert(e == ErrManagerTableNotFound, "an id that was never created is not found, however similar it looks")
		}
	}
	o, err3 := m.GetTableEngine("t0")
	verifrt.Assert(err3 == nil && o == TableEngine(other) && len(other.calls) == 0, "bystander table untouched")
	te := got.(*tableEngine)
	verifrt.DropPending() // events emitted from goroutines during creation are not the subject
	r0 := *rec
	te.onTableUpdated(t)
	te.onTableErrorUpdated(t, nil)
	te.onTableStateUpdated("x", t)
	te.onTablePlayerStateUpdated("", "", nil)
	te.onTablePlayerReserved("", "", nil)
	te.onGamePlayerActionUpdated(TablePlayerGameAction{})
	te.onAutoGameOpenEnd("", "")
	te.onReadyOpenFirstTableGame("", "", 0, nil)
	verifrt.Assert(rec.updated == r0.updated+1 && rec.errors == r0.errors+1 && rec.stateEvents == r0.stateEvents+1 && rec.playerStates == r0.playerStates+1 && rec.reserved == r0.reserved+1 && rec.actions == r0.actions+1 && rec.autoOpenEnd == r0.autoOpenEnd+1 && rec.readyFirst == r0.readyFirst+1, "all eight callbacks wired to the new engine")
	verifrt.Reach("end")
}

// VH_C17_Isolation: two real tables created through the manager share no mutable state
// (verifrt.Disjoint on everything reachable from the two tables), and a membership
// operation addressed to one of them leaves the other's snapshot exactly as it was —
// whichever of the two it is addressed to.
func VH_C17_Isolation() {
	m := NewManager().(*manager)
	M := verifrt.Cfg("M")
	mk := func(id string, players []string) *Table {
		jps := []JoinPlayer{}
		for i, p := range players {
			jps = append(jps, JoinPlayer{PlayerID: p, RedeemChips: 100, Seat: i})
		}
		t, err := m.CreateTable(nil, nil, TableSetting{TableID: id, Meta: TableMeta{CompetitionID: "c", TableMaxSeatCount: M, TableMinPlayerCount: 2, Rule: CompetitionRule_Default, Mode: CompetitionMode_CT},
			Blind: TableBlindState{Level: 1, SB: 10, BB: 20}, JoinPlayers: jps})
		verifrt.Assert(err == nil && t != nil, "create succeeds")
		return t
	}
	ta := mk("ta", []string{"a0", "a1", "a2"})
	tb := mk("tb", []string{})
	tc := mk("tc", []string{"c0", "c1"})
	verifrt.DropPending()
	verifrt.Assert(verifrt.Disjoint(ta, tb) && verifrt.Disjoint(ta, tc) && verifrt.Disjoint(tb, tc), "freshly created tables share no mutable state")
	target := verifrt.Cfg("target") // which table the operation is addressed to (case split: one job per table)
	tid := []string{"ta", "tb", "tc"}[target]
	snapA, snapB, snapC := verifrt.Snapshot(ta), verifrt.Snapshot(tb), verifrt.Snapshot(tc)
	switch verifrt.Cfg("op") {
	case 0:
		m.PlayersLeave(tid, []string{vhPick("leaver", []string{"a1", "c0", "a2", "zz"})})
	case 1:
		m.PlayerReserve(tid, JoinPlayer{PlayerID: vhPick("joiner", []string{"x0", "a0", "c1"}), RedeemChips: 50, Seat: verifrt.IntRange("seat", -1, M-1)})
	case 2:
		m.UpdateTablePlayers(tid, []JoinPlayer{{PlayerID: "x0", RedeemChips: 50, Seat: verifrt.IntRange("seat", -1, M-1)}}, []string{vhPick("leaver", []string{"a1", "c0", "zz"})})
	case 3:
		m.PlayerJoin(tid, vhPick("joiner", []string{"a0", "c1", "zz"}))
	}
	verifrt.DropPending()
	ea, _ := m.GetTableEngine("ta")
	eb, _ := m.GetTableEngine("tb")
	ec, _ := m.GetTableEngine("tc")
	if target != 0 {
		verifrt.Assert(verifrt.SameState(snapA, ea.GetTable()), "an operation on another table leaves table ta exactly as it was")
	}
	if target != 1 {
		verifrt.Assert(verifrt.SameState(snapB, eb.GetTable()), "an operation on another table leaves table tb exactly as it was")
	}
	if target != 2 {
		verifrt.Assert(verifrt.SameState(snapC, ec.GetTable()), "an operation on another table leaves table tc exactly as it was")
	}
	verifrt.Assert(verifrt.Disjoint(ea.GetTable(), eb.GetTable()) && verifrt.Disjoint(ea.GetTable(), ec.GetTable()) && verifrt.Disjoint(eb.GetTable(), ec.GetTable()), "tables still share no mutable state afterwards")
	verifrt.Reach("end")
}
