package pokertable

// C06 — position labels and next-BB order agree with the button seats.

import (
	"github.com/weedbox/pokertable/internal/verifrt"
)

// standard order per number of occupied position slots (independent copy of the convention)
func vhStandard(c int) []string {
	switch c {
	case 3:
		return []string{"dealer", "sb", "bb"}
	case 4:
		return []string{"dealer", "sb", "bb", "ug"}
	case 5:
		return []string{"dealer", "sb", "bb", "ug", "co"}
	case 6:
		return []string{"dealer", "sb", "bb", "ug", "hj", "co"}
	case 7:
		return []string{"dealer", "sb", "bb", "ug", "mp", "hj", "co"}
	case 8:
		return []string{"dealer", "sb", "bb", "ug", "ug2", "mp", "hj", "co"}
	case 9:
		return []string{"dealer", "sb", "bb", "ug", "ug2", "mp", "mp2", "hj", "co"}
	case 10:
		return []string{"dealer", "sb", "bb", "ug", "ug2", "ug3", "mp", "mp2", "hj", "co"}
	}
	return []string{}
}

func vhCW(M, a, b int) int { return (b - a + M) % M } // clockwise distance a -> b

// VH_C06_Labels: labels handed out at open, against the reference model.
func VH_C06_Labels() {
	n := verifrt.Cfg("n")
	M := verifrt.Cfg("M")
	w := vhOpenedWorld(n, M)
	te := w.te
	st := te.table.State
	D, SB, BB := te.sm.CurrentDealerSeatID(), te.sm.CurrentSBSeatID(), te.sm.CurrentBBSeatID()
	hu := D == SB
	// invariant K: heads-up form or clockwise ring D -> SB -> BB
	verifrt.Assume(hu || (D != SB && D != BB && vhCW(M, D, SB) < vhCW(M, D, BB)))
	// no dealt-in player strictly between the dealer seat and the big-blind seat other than on the small-blind seat
	for s := 0; s < M; s++ {
		between := vhCW(M, D, s) > 0 && vhCW(M, D, s) < vhCW(M, D, BB)
		if between && s != SB {
			verifrt.Assume(!vhSeatParticipates(te, s))
		}
	}
	// heads-up form means exactly two dealt in; a ring form at least three slots
	cnt := 0
	for s := 0; s < M; s++ {
		if vhSeatParticipates(te, s) {
			cnt++
		}
	}
	verifrt.Assume(hu == (cnt == 2))
	if hu {
		verifrt.Assume(vhSeatParticipates(te, D))
	}

	te.updatePlayerPositions(M, st.PlayerStates)

	// reference: slots clockwise from the big-blind seat
	slots := 0
	for s := 0; s < M; s++ {
		if s == D || s == SB || s == BB || vhSeatParticipates(te, s) {
			slots++
		}
	}
	var order [][]string
	if slots == 2 {
		order = [][]string{{"bb"}, {"dealer", "sb"}}
	} else {
		std := vhStandard(slots)
		for i := 0; i < len(std); i++ {
			order = append(order, []string{std[(i+2)%len(std)]})
		}
	}
	k := 0
	for i := 0; i < M; i++ {
		s := (BB + i) % M
		isSlot := s == D || s == SB || s == BB || vhSeatParticipates(te, s)
		idx := st.SeatMap[s]
		if isSlot {
			if vhSeatParticipates(te, s) {
				got := st.PlayerStates[idx].Positions
				if k < len(order) {
					want := order[k]
					same := len(got) == len(want)
					if same {
						for q := range want {
							if got[q] != want[q] {
								same = false
							}
						}
					}
					verifrt.Assert(same, "labels go clockwise from the big-blind seat in the standard order for the number of slots")
				}
			}
			k++
		} else if idx >= 0 {
			verifrt.Assert(len(st.PlayerStates[idx].Positions) == 0, "players who are not dealt in carry no label")
		}
	}
	// the clauses the property names explicitly
	bbIdx := st.SeatMap[BB]
	verifrt.Assert(bbIdx >= 0 && vhHasString(st.PlayerStates[bbIdx].Positions, "bb"), "the player in the big-blind seat is labelled bb")
	if vhSeatParticipates(te, SB) {
		p := st.PlayerStates[st.SeatMap[SB]].Positions
		verifrt.Assert(vhHasString(p, "sb") && (!hu || vhHasString(p, "dealer")), "a dealt-in player in the small-blind seat is labelled sb (dealer and sb heads-up)")
	}
	for i := 0; i < n; i++ {
		pi := st.PlayerStates[i]
		if pi.IsParticipated {
			verifrt.Assert(len(pi.Positions) > 0, "every dealt-in player has a label")
		}
		for j := 0; j < i; j++ {
			pj := st.PlayerStates[j]
			for _, a := range pi.Positions {
				verifrt.Assert(!vhHasString(pj.Positions, a), "no two players share a label")
			}
		}
	}
	verifrt.Reach("end")
}

// VH_C06_NextBB: the next-big-blind order published at settlement.
func VH_C06_NextBB() {
	w, _, changed := vhSettleWorld()
	_ = changed
	te := w.te
	M := w.M
	verifrt.Assume(te.sm.IsInitPositions())
	BB := te.sm.CurrentBBSeatID()
	te.settleGame()
	got := te.table.State.NextBBOrderPlayerIDs
	st := te.table.State
	k := 0
	for i := 1; i <= M; i++ {
		s := (BB + i) % M
		idx := st.SeatMap[s]
		if idx >= 0 && st.PlayerStates[idx].Bankroll > 0 {
			verifrt.Assert(k < len(got) && got[k] == st.PlayerStates[idx].PlayerID, "next-BB order lists the players with chips clockwise from the seat after the big blind")
			k++
		}
	}
	verifrt.Assert(len(got) == k, "next-BB order lists exactly the players with chips")
	verifrt.Reach("end")
}
