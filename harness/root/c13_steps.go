package pokertable

// C13 — engine-side steps (kept in its own file: it calls startGame directly, and a file
// that no longer compiles after a signature change is dropped as a whole).

import (
	"github.com/weedbox/pokerface"
	"github.com/weedbox/pokertable/internal/verifrt"
)

// VH_C13_EngineSteps: a backend failure in a step the engine performs by itself
// (ReadyForAll / PayAnte / PayBlinds after the collection point completed) is
// reported through the game error callback and, with the handler startGame
// installs, through the table error callback.
func VH_C13_EngineSteps() {
	m := verifrt.Cfg("m")
	which := verifrt.Cfg("point") // 0 ready, 1 ante, 2 blinds, 3 next round
	n := m
	w := vhNewWorld(n, verifrt.Cfg("M"), m, false)
	te := w.te
	w.bk.faults = true
	// startGame wires the real handlers (OnGameErrorUpdated -> emitErrorEvent)
	verifrt.Assume(!verifrt.BoolI("bk.fail", 0))
	err := te.startGame()
	verifrt.Assert(err == nil, "startGame succeeds")
	g := te.game.(*game)
	g.rg.ModelSetStepped(true)
	// ReleaseTable / CloseTable may arrive while the hand runs: the hand goes on (release only
	// sets a flag), and a failure of one of its engine-side steps must still be reported
	te.isReleased = verifrt.Bool("releasedMidHand")
	if verifrt.Bool("closedMidHand") {
		te.table.State.Status = TableStateStatus_TableClosed
	}
	var gs *pokerface.GameState
	if which == 3 {
		gs = vhArbitraryGS("rq", m)
		gs.Status.CurrentEvent = "RoundClosed"
	} else {
		gs = vhRequestState(m, which)
	}
	if which == 1 {
		verifrt.Assume(gs.Meta.Ante > 0)
	}
	verifrt.Assume(gs.Status.CurrentPlayer >= 0) // the hand engine always designates a current player once initialised
	g.gs = gs
	te.table.State.GameState = gs // as published by updateGameState when this state arrived
	w.bk.tag, w.bk.tagN = "bk1", 1
	calls0 := len(w.bk.calls)
	q0 := len(g.incomingStates)
	g.handleGameState(gs)
	// nobody answers: the response timeout completes the collection point
	if g.rg.ModelTimerArmed() {
		g.rg.ModelFireTimeout()
		for i := 0; i < m+1; i++ {
			if g.rg.ModelQueueLen() > 0 {
				g.rg.ModelProcessOne()
				g.rg.ModelRunCompletion()
			}
		}
	}
	asked := which == 3 || len(g.rg.GetParticipantStates()) > 0
	if asked {
		verifrt.Assert(len(w.bk.calls) == calls0+1, "the engine-side step is attempted once")
		errsBefore := w.rec.errors
		verifrt.RunPendingNamed("emitErrorEvent") // the error event is emitted from a goroutine (`go te.emitErrorEvent`)
		if verifrt.BoolI("bk.fail", 1) {
			verifrt.Reach("step failed")
			verifrt.Assert(w.rec.errors == errsBefore+1 && w.rec.lastErr == vhErrBackend, "a failing engine-side step is reported through the table error callback")
			verifrt.Assert(te.table.State.GameState == gs, "a failing engine-side step leaves the table's hand state as it was")
			verifrt.Assert(len(g.incomingStates) == q0, "a failing engine-side step queues nothing")
		} else {
			verifrt.Assert(w.rec.errors == errsBefore, "no error report when the step succeeds")
		}
	}
	verifrt.Reach("end")
}
