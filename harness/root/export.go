package pokertable

// Harness-only constructors used from other packages' harnesses (overlay file, not part of /repo).

import "github.com/weedbox/pokerface"

// vhAcceptBackend accepts every request and hands the state back unchanged: behind it,
// pokertable's game wrapper shows what the WRAPPER itself lets through or refuses.
type vhAcceptBackend struct{ Calls int }

func (b *vhAcceptBackend) ok(gs *pokerface.GameState) (*pokerface.GameState, error) {
	b.Calls++
	return gs, nil
}
func (b *vhAcceptBackend) CreateGame(opts *pokerface.GameOptions) (*pokerface.GameState, error) {
	return b.ok(&pokerface.GameState{})
}
func (b *vhAcceptBackend) ReadyForAll(gs *pokerface.GameState) (*pokerface.GameState, error) { return b.ok(gs) }
func (b *vhAcceptBackend) PayAnte(gs *pokerface.GameState) (*pokerface.GameState, error)     { return b.ok(gs) }
func (b *vhAcceptBackend) PayBlinds(gs *pokerface.GameState) (*pokerface.GameState, error)   { return b.ok(gs) }
func (b *vhAcceptBackend) Next(gs *pokerface.GameState) (*pokerface.GameState, error)        { return b.ok(gs) }
func (b *vhAcceptBackend) Pay(gs *pokerface.GameState, chips int64) (*pokerface.GameState, error) {
	return b.ok(gs)
}
func (b *vhAcceptBackend) Fold(gs *pokerface.GameState) (*pokerface.GameState, error)  { return b.ok(gs) }
func (b *vhAcceptBackend) Check(gs *pokerface.GameState) (*pokerface.GameState, error) { return b.ok(gs) }
func (b *vhAcceptBackend) Call(gs *pokerface.GameState) (*pokerface.GameState, error)  { return b.ok(gs) }
func (b *vhAcceptBackend) Allin(gs *pokerface.GameState) (*pokerface.GameState, error) { return b.ok(gs) }
func (b *vhAcceptBackend) Bet(gs *pokerface.GameState, chips int64) (*pokerface.GameState, error) {
	return b.ok(gs)
}
func (b *vhAcceptBackend) Raise(gs *pokerface.GameState, chipLevel int64) (*pokerface.GameState, error) {
	return b.ok(gs)
}
func (b *vhAcceptBackend) Pass(gs *pokerface.GameState) (*pokerface.GameState, error) { return b.ok(gs) }

// VHWrapperOn returns pokertable's game wrapper (the object every Player<Action> goes
// through) positioned on the given hand state, over the accept-everything backend.
func VHWrapperOn(gs *pokerface.GameState) Game {
	g := NewGame(&vhAcceptBackend{}, pokerface.NewStardardGameOptions())
	g.gs = gs
	return g
}
