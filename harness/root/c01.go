package pokertable

// C01 — chips are conserved by hands, top-ups and departures
// (plus C02 O-3 settle side, C06 O-3 next-BB order, C14 O-3 showdown flags).

import (
	"github.com/weedbox/pokerface/settlement"
	"github.com/weedbox/pokertable/internal/verifrt"
)

// vhSettleWorld: a hand that has just closed: m participants, arbitrary table
// bankrolls (not tied to the hand's starting stacks: top-ups during the hand are
// inside the quantifier), engine result with Final = hand bankroll + Changed.
func vhSettleWorld() (*vhWorld, int, []int64) {
	n := verifrt.Cfg("n")
	m := verifrt.Cfg("m")
	w := vhNewWorld(n, verifrt.Cfg("M"), m, true)
	gs := w.te.table.State.GameState
	gs.Status.CurrentEvent = "GameClosed"
	res := settlement.NewResult()
	changed := make([]int64, m)
	for i := 0; i < m; i++ {
		ch := verifrt.Int64I("changed", i)
		verifrt.Assume(ch > -(1<<40) && ch < 1<<40)
		verifrt.Assume(gs.Players[i].Bankroll >= 0 && gs.Players[i].Bankroll < 1<<40)
		verifrt.Assume(gs.Players[i].Bankroll+ch >= 0)
		changed[i] = ch
		res.Players = append(res.Players, &settlement.PlayerResult{Idx: i, Final: gs.Players[i].Bankroll + ch, Changed: ch})
	}
	gs.Result = res
	return w, m, changed
}

// VH_C01_Settle: a settled hand changes each participant's bankroll by exactly
// its result and nobody else's.
func VH_C01_Settle() {
	w, m, changed := vhSettleWorld()
	te := w.te
	n := len(te.table.State.PlayerStates)
	pre := make([]int64, n)
	for i, p := range te.table.State.PlayerStates {
		pre[i] = p.Bankroll
	}
	gpi := make([]int, m)
	copy(gpi, te.table.State.GamePlayerIndexes)
	// a participant's bankroll can only differ from the stack the hand started with by top-ups
	topup := false
	for k := 0; k < m; k++ {
		if pre[gpi[k]] != te.table.State.GameState.Players[k].Bankroll {
			topup = true
		}
	}
	_ = topup // top-ups during the hand are inside the quantifier (defect repaired, see known_findings.json)

	// subscribers may call back into the engine from any callback (leave, re-buy, ...):
	// whatever settlement publishes must therefore show every result already credited
	published := 0
	settled := func() {
		published++
		for k := 0; k < m; k++ {
			verifrt.Assert(te.table.State.PlayerStates[gpi[k]].Bankroll == pre[gpi[k]]+changed[k], "settlement publishes nothing before every result has been credited")
		}
	}
	te.OnTableUpdated(func(*Table) { settled() })
	te.OnTableStateUpdated(func(string, *Table) { settled() })
	te.OnTablePlayerStateUpdated(func(string, string, *TablePlayerState) { settled() })

	te.settleGame()
	verifrt.Assert(published >= 1, "settlement is published")

	verifrt.Assert(te.table.State.Status == TableStateStatus_TableGameSettled, "status settled")
	for i := 0; i < n; i++ {
		part := -1
		for k := 0; k < m; k++ {
			if gpi[k] == i {
				part = k
			}
		}
		got := te.table.State.PlayerStates[i].Bankroll
		if part >= 0 {
			verifrt.Assert(got == pre[i]+changed[part], "a participant's bankroll changes by exactly their result for the hand")
		} else {
			verifrt.Assert(got == pre[i], "a settled hand leaves everyone else's bankroll untouched")
		}
	}
	verifrt.Reach("end")
}

// VH_C01_TopUps: buy-in / re-buy / add-on add exactly the amount to exactly the
// named player, in every table status.
func VH_C01_TopUps() {
	n := verifrt.Cfg("n")
	m := verifrt.Cfg("m")
	w := vhNewWorld(n, verifrt.Cfg("M"), m, true)
	te := w.te
	op := verifrt.Cfg("op") // 0 PlayerRedeemChips, 1 PlayerReserve
	who := verifrt.IntRange("who", 0, n)
	id := "newcomer"
	if who < n {
		id = vhIDs[who]
	}
	amount := verifrt.Int64("amount")
	verifrt.Assume(amount >= 0 && amount < 1<<40)
	pre := make([]int64, n)
	for i, p := range te.table.State.PlayerStates {
		pre[i] = p.Bankroll
	}
	var err error
	if op == 0 {
		err = te.PlayerRedeemChips(JoinPlayer{PlayerID: id, RedeemChips: amount, Seat: -1})
	} else {
		err = te.PlayerReserve(JoinPlayer{PlayerID: id, RedeemChips: amount, Seat: verifrt.IntRange("seatArg", -1, w.M-1)})
	}
	ps := te.table.State.PlayerStates
	if err != nil {
		verifrt.Assert(len(ps) == n, "refused top-up: nobody added")
		for i := 0; i < n; i++ {
			verifrt.Assert(ps[i].Bankroll == pre[i], "refused top-up: bankrolls unchanged")
		}
	} else {
		for i := 0; i < n; i++ {
			if i == who {
				verifrt.Assert(ps[i].Bankroll == pre[i]+amount, "top-up adds exactly the amount")
			} else {
				verifrt.Assert(ps[i].Bankroll == pre[i], "top-up leaves the other players' bankrolls alone")
			}
		}
		if who == n {
			k := te.table.FindPlayerIdx(id)
			verifrt.Assert(op == 1 && len(ps) == n+1 && k >= 0 && ps[k].Bankroll == amount, "buy-in brings exactly the amount")
		} else {
			verifrt.Assert(len(ps) == n, "top-up of a seated player adds nobody")
		}
	}
	verifrt.Reach("end")
}

// VH_C01_Leave: departures between hands remove exactly the leavers with their bankrolls.
func VH_C01_Leave() {
	n := verifrt.Cfg("n")
	w := vhNewWorld(n, verifrt.Cfg("M"), 0, false)
	te := w.te
	st := te.table.State.Status
	verifrt.Assume(st != TableStateStatus_TableGameOpened && st != TableStateStatus_TableGamePlaying && st != TableStateStatus_TableGameSettled)
	leaves := make([]bool, n)
	ids := []string{}
	for i := 0; i < n; i++ {
		leaves[i] = verifrt.BoolI("leaves", i)
		if leaves[i] {
			ids = append(ids, vhIDs[i])
		}
	}
	pre := make([]int64, n)
	for i, p := range te.table.State.PlayerStates {
		pre[i] = p.Bankroll
	}
	err := te.PlayersLeave(ids)
	verifrt.Assert(err == nil, "leaving seated players succeeds")
	k := 0
	ps := te.table.State.PlayerStates
	for i := 0; i < n; i++ {
		if !leaves[i] {
			verifrt.Assert(k < len(ps) && ps[k].PlayerID == vhIDs[i] && ps[k].Bankroll == pre[i], "remaining players keep their bankrolls")
			k++
		}
	}
	verifrt.Assert(len(ps) == k, "exactly the leavers are gone")
	verifrt.Reach("end")
}

// VH_C01_Frame: operations that are not supposed to move chips leave every
// bankroll alone. op: 0 openGame, 1 continueGame, 2 PlayerJoin, 3..11 an accepted
// or refused Player<Action> (nondeterministic backend), 12 UpdateBlind, 13 tableGameOpen.
func VH_C01_Frame() {
	n := verifrt.Cfg("n")
	m := verifrt.Cfg("m")
	op := verifrt.Cfg("op")
	hand := m
	if op <= 2 || op >= 12 {
		hand = 0
	}
	w := vhNewWorld(n, verifrt.Cfg("M"), hand, hand > 0)
	te := w.te
	pre := make([]int64, n)
	for i, p := range te.table.State.PlayerStates {
		pre[i] = p.Bankroll
	}
	t := te.table
	switch {
	case op == 0:
		nt, err := te.openGame(te.table)
		if err == nil {
			t = nt
		}
	case op == 1:
		te.table.Meta.Mode = CompetitionMode_MTT
		te.continueGame([]*TablePlayerState{})
	case op == 2:
		te.PlayerJoin(vhIDs[verifrt.IntRange("who", 0, n-1)])
	case op <= 11:
		who := verifrt.IntRange("who", 0, n)
		id := "stranger"
		if who < n {
			id = vhIDs[who]
		}
		vhDo(te, op-3, id, verifrt.Int64("chips"))
	case op == 12:
		te.UpdateBlind(verifrt.IntRange("nb.level", -1, 5), verifrt.Int64("nb.ante"), verifrt.Int64("nb.dealer"), verifrt.Int64("nb.sb"), verifrt.Int64("nb.bb"))
	}
	verifrt.Assert(len(t.State.PlayerStates) == n, "nobody is added or removed")
	for i, p := range t.State.PlayerStates {
		verifrt.Assert(p.PlayerID == vhIDs[i] && p.Bankroll == pre[i], "bankrolls are untouched by operations that move no chips")
	}
	verifrt.Reach("end")
}
