package pokertable

// C08 — after each hand the table pauses or deals on; it never wedges.

import (
	"time"

	"github.com/weedbox/pokertable/internal/verifrt"
	"github.com/weedbox/pokertable/open_game_manager"
)

// VH_C08_Continue: the continue handler after a settled hand, for every outcome
// of the hand (who busted), every set of sitting-out / waiting / newly arrived
// players.  The continue interval is the time bank model in immediate mode.
func VH_C08_Continue() {
	n := verifrt.Cfg("n")
	M := verifrt.Cfg("M")
	w := vhNewWorld(n, M, 0, false)
	te := w.te
	st := te.table.State
	// every mode; for CT / cash tables the table's own time limit may have run out, in which case
	// the table reports the end of automatic dealing instead (symbolic clock, start and duration)
	mode := verifrt.IntRange("mode", 0, 2)
	te.table.Meta.Mode = []string{CompetitionMode_MTT, CompetitionMode_CT, CompetitionMode_Cash}[mode]
	st.StartAt = verifrt.Int64("startAt")
	te.table.Meta.MaxDuration = verifrt.IntRange("maxDuration", 0, 3)
	verifrt.Assume(st.StartAt >= 0 && st.StartAt < 1<<40)
	tableEnd := st.StartAt + int64(te.table.Meta.MaxDuration)
	st.Status = TableStateStatus_TableGameSettled
	// previous hand: an arbitrary subset of the players took part; the survivors are handed to continueGame
	alive := []*TablePlayerState{}
	for i, p := range st.PlayerStates {
		if verifrt.BoolI("wasInHand", i) && p.Bankroll > 0 {
			alive = append(alive, p)
		}
	}
	gc := st.GameCount
	ogm := te.ogm.(interface {
		GetState() open_game_manager.OpenGameState
	})
	before := ogm.GetState()

	// what arrives while the continue interval runs: nothing, a break level, a close, a release
	cenv := verifrt.IntRange("cenv", 0, 3)
	if te.options.GameContinueInterval == 0 {
		cenv = 0 // no interval, nothing can arrive in it
	}
	te.tbForOpenGame.ModelDuringNextInterval(func() {
		switch cenv {
		case 1:
			te.UpdateBlind(-1, 0, 0, 0, 0)
		case 2:
			te.CloseTable()
		case 3:
			te.ReleaseTable()
		}
	})
	t0 := time.Now().Unix()
	err := te.continueGame(alive)
	t1 := time.Now().Unix()
	if cenv >= 2 {
		after := ogm.GetState()
		verifrt.Assert(after.GameCount == before.GameCount && len(after.Participants) == len(before.Participants), "a table closed or released during the continue interval sets up no further hand")
		verifrt.Reach("end")
		return
	}

	verifrt.Assert(err == nil, "continueGame succeeds")
	if mode != 0 && t0 > tableEnd {
		verifrt.Reach("table time over")
		after := ogm.GetState()
		verifrt.Assert(w.rec.autoOpenEnd == 1, "a CT / cash table whose time is over reports the end of automatic dealing once")
		verifrt.Assert(after.GameCount == before.GameCount && len(after.Participants) == len(before.Participants) && st.Status == TableStateStatus_TableGameStandby, "and sets up no further hand")
		verifrt.Reach("end")
		return
	}
	// otherwise (tournament table, or table time not over at any clock reading during the call)
	verifrt.Assume(mode == 0 || t1 <= tableEnd)
	verifrt.Assert(w.rec.autoOpenEnd == 0, "no end-of-dealing report while the table's time is not over")
	withChips := 0
	for _, p := range st.PlayerStates {
		if p.Bankroll > 0 {
			withChips++
		}
	}
	shouldPause := st.BlindState.Level == -1 || withChips < te.table.Meta.TableMinPlayerCount
	after := ogm.GetState()
	setUp := after.GameCount != before.GameCount || len(after.Participants) != len(before.Participants)
	if shouldPause {
		verifrt.Reach("pause")
		verifrt.Assert(st.Status == TableStateStatus_TablePausing, "break level or too few players with chips: the table pauses")
		verifrt.Assert(!setUp, "a pausing table sets up no hand")
	} else {
		verifrt.Reach("deal on")
		verifrt.Assert(st.Status == TableStateStatus_TableGameStandby, "otherwise the table does not pause")
		verifrt.Assert(after.GameCount == gc+1, "the next hand is set up with the next game count")
		// at least two players have chips here (minimum player count >= 2): the gate must be one whose
		// completion opens the hand, i.e. the ready callback's own test (more than one participant) passes
		verifrt.Assert(len(after.Participants) > 1, "the next hand is set up so that the open-game callback will open it (more than one expected participant)")
		for id := range after.Participants {
			idx := te.table.FindPlayerIdx(id)
			verifrt.Assert(idx >= 0 && st.PlayerStates[idx].Bankroll > 0, "expected participants are players who still have chips")
		}
	}
	verifrt.Reach("end")
}

// VH_C08_GateOpens: when the gate set up by the continue handler completes, the
// engine's own callback opens the hand (no further external call).
func VH_C08_GateOpens() {
	n := verifrt.Cfg("n")
	M := verifrt.Cfg("M")
	vhConcreteLayout = true
	w := vhOpenedWorld(n, M)
	te := w.te
	st := te.table.State
	verifrt.Assume(st.Status == TableStateStatus_TableGameStandby && st.BlindState.IsSet() && !st.BlindState.IsBreaking())
	gc := st.GameCount
	parts := map[string]int{}
	for i, p := range st.PlayerStates {
		if verifrt.BoolI("expected", i) {
			parts[p.PlayerID] = i
		}
	}
	og := te.ogm.(interface {
		ModelStepped(bool)
		ModelSettle(int) bool
	})
	og.ModelStepped(true)
	te.SetUpTableGame(gc+1, parts)
	// the expected players signal (or not); then the open-game timeout elapses
	for i, p := range st.PlayerStates {
		if verifrt.BoolI("signals", i) {
			te.PlayerSettlementFinish(p.PlayerID)
		}
	}
	fired := og.ModelSettle(n + 1)
	if len(parts) > 0 {
		verifrt.Assert(fired, "the gate completes once the expected players signalled or the timeout elapsed")
	}
	if len(parts) > 1 {
		verifrt.Assert(len(w.bk.calls) == 1 && w.bk.calls[0].kind == "create" && te.table.State.GameCount == gc+1 && te.table.State.Status == TableStateStatus_TableGamePlaying, "the completed gate opens exactly one hand by itself")
	}
	verifrt.Reach("end")
}
