package pokertable

import "github.com/weedbox/pokertable/internal/verifrt"

// VH_C14_Frame: while a hand runs, operations that are not game actions (buy-in, re-buy, join,
// add-on, blind update, deadline extension, a bystander leaving — each with every callback
// subscribed, so the event emitters run) leave the per-hand fields of every player who stays —
// statistics, labels, dealt-in flag — exactly as they were.  Settlement reports the statistics
// "of what the player actually did", so nothing but an accepted action (C14 Action lemma), the
// chance flags (Chance lemma) and the showdown flags (Showdown lemma) may move them.
func VH_C14_Frame() {
	n := verifrt.Cfg("n")
	m := verifrt.Cfg("m")
	w := vhNewWorld(n, verifrt.Cfg("M"), m, true)
	te := w.te
	st := te.table.State
	verifrt.Assume(st.Status == TableStateStatus_TableGameOpened || st.Status == TableStateStatus_TableGamePlaying || st.Status == TableStateStatus_TableGameSettled)
	for i, p := range st.PlayerStates {
		// arbitrary labels
		for _, pos := range vhAllPositions {
			if verifrt.BoolI("pos."+pos, i) {
				p.Positions = append(p.Positions, pos)
			}
		}
	}
	op := verifrt.Cfg("op")
	whoIdx := verifrt.IntRange("who", 0, n-1)
	who := vhIDs[whoIdx]
	preStats := make([]TablePlayerGameStatistics, n)
	prePart := make([]bool, n)
	prePos := make([][]string, n)
	for i, p := range st.PlayerStates {
		preStats[i] = p.GameStatistics
		prePart[i] = p.IsParticipated
		prePos[i] = append([]string{}, p.Positions...)
	}
	switch op {
	case 0:
		te.PlayerReserve(JoinPlayer{PlayerID: "newcomer", RedeemChips: verifrt.Int64("amount"), Seat: verifrt.IntRange("seatArg", -1, w.M-1)})
	case 1:
		te.PlayerReserve(JoinPlayer{PlayerID: who, RedeemChips: verifrt.Int64("amount"), Seat: -1})
	case 2:
		te.PlayerJoin(who)
	case 3:
		te.PlayerRedeemChips(JoinPlayer{PlayerID: who, RedeemChips: verifrt.Int64("amount")})
	case 4:
		te.UpdateBlind(verifrt.IntRange("nb.level", -1, 5), verifrt.Int64("nb.ante"), verifrt.Int64("nb.dealer"), verifrt.Int64("nb.sb"), verifrt.Int64("nb.bb"))
	case 5:
		te.PlayerExtendActionDeadline(who, verifrt.IntRange("secs", 0, 30))
	case 6:
		inHand := false
		for k := 0; k < m; k++ {
			if st.GamePlayerIndexes[k] == whoIdx {
				inHand = true
			}
		}
		verifrt.Assume(!inHand) // a dealt-in leaver is known finding C02_LEAVE_DEALT_IN (C02)
		te.PlayersLeave([]string{who})
	}
	verifrt.Reach("after the operation")
	for i := 0; i < n; i++ {
		k := te.table.FindPlayerIdx(vhIDs[i])
		if k < 0 {
			verifrt.Assert(op == 6 && i == whoIdx, "nobody but a leaver disappears")
			continue
		}
		p := te.table.State.PlayerStates[k]
		verifrt.Assert(p.GameStatistics == preStats[i], "an operation that is not a game action leaves every player's statistics alone")
		verifrt.Assert(p.IsParticipated == prePart[i], "an operation that is not a game action leaves the dealt-in flags alone")
		same := len(p.Positions) == len(prePos[i])
		if same {
			for j := range prePos[i] {
				if p.Positions[j] != prePos[i][j] {
					same = false
				}
			}
		}
		verifrt.Assert(same, "an operation that is not a game action leaves the labels alone")
	}
	verifrt.Reach("end")
}
