package pokertable

import "github.com/weedbox/pokertable/internal/verifrt"

// VH_C02_StartThenAct: "every action accepted for entry i was submitted by that player",
// over a two-step history — the hand is started by the real startGame (whatever the engine
// remembers about the hand at that moment is built by the real code, not by the harness), a
// membership event may happen while the hand runs (somebody reserves a seat, a bystander
// leaves), and then anybody — a player seated at open, the newcomer, a stranger — submits an
// action.  Accepted ⇒ the caller is the player that the hand's entry denotes: for a wager
// action or pass the entry whose turn it is, for ready / pay an entry of the caller's own.
func VH_C02_StartThenAct() {
	w, m := vhStartWorld()
	te := w.te
	n := w.n
	if te.startGame() != nil {
		return
	}
	verifrt.Reach("started")
	st := te.table.State
	switch verifrt.IntRange("between", 0, 2) {
	case 1:
		te.PlayerReserve(JoinPlayer{PlayerID: "newcomer", RedeemChips: verifrt.Int64("amount"), Seat: verifrt.IntRange("seatArg", -1, w.M-1)})
	case 2:
		wi := verifrt.IntRange("leaver", 0, n-1)
		inHand := false
		for k := 0; k < m; k++ {
			if st.GamePlayerIndexes[k] == wi {
				inHand = true
			}
		}
		verifrt.Assume(!inHand) // a dealt-in leaver is known finding C02_LEAVE_DEALT_IN
		te.PlayersLeave([]string{vhIDs[wi]})
	}
	st = te.table.State
	// the state the updater delivers to the table is the one the wrapper holds
	gs := te.game.GetGameState()
	st.GameState = gs
	verifrt.Assume(st.Status == TableStateStatus_TableGamePlaying)
	act := verifrt.Cfg("act")
	who := verifrt.IntRange("caller", 0, n+1)
	caller := "stranger"
	if who < n {
		caller = vhIDs[who]
	} else if who == n {
		caller = "newcomer"
	}
	// reference: the hand entry that denotes the caller (own scan, by id)
	ref := -1
	for k := 0; k < len(st.GamePlayerIndexes); k++ {
		pi := st.GamePlayerIndexes[k]
		if pi >= 0 && pi < len(st.PlayerStates) && st.PlayerStates[pi].PlayerID == caller {
			ref = k
		}
	}
	cur := gs.Status.CurrentPlayer
	err := vhDo(te, act, caller, verifrt.Int64("chips"))
	if err == nil {
		verifrt.Reach("accepted")
		verifrt.Assert(ref >= 0, "an accepted action was submitted by a player who has an entry in the hand")
		if act <= vhActPass {
			verifrt.Assert(ref == cur, "an accepted wager action / pass was submitted by the player the current entry denotes")
		}
		la := te.table.State.LastPlayerGameAction
		verifrt.Assert(la != nil && la.PlayerID == caller && ref >= 0 && la.Seat == st.PlayerStates[st.GamePlayerIndexes[ref]].Seat, "the published action names the submitting player and his seat")
	}
	verifrt.Reach("end")
}
