package pokertable

// Shared harness infrastructure for the table-engine properties: arbitrary
// table / hand states, a nondeterministic game backend, recording callbacks.

import (
	"errors"

	"github.com/weedbox/pokerface"
	"github.com/weedbox/pokertable/internal/verifrt"
	"github.com/weedbox/pokertable/seat_manager"
	"github.com/weedbox/syncsaga"
)

var vhIDs = []string{"p0", "p1", "p2", "p3", "p4", "p5", "p6", "p7", "p8", "p9"}

var vhStatuses = []TableStateStatus{
	TableStateStatus_TableCreated, TableStateStatus_TablePausing, TableStateStatus_TableRestoring,
	TableStateStatus_TableBalancing, TableStateStatus_TableClosed, TableStateStatus_TableGameOpened,
	TableStateStatus_TableGamePlaying, TableStateStatus_TableGameSettled, TableStateStatus_TableGameStandby,
}

var vhRounds = []string{"", GameRound_Preflop, GameRound_Flop, GameRound_Turn, GameRound_River}

var vhEvents = []string{"Started", "Initialized", "Prepared", "AnteRequested", "AntePaid", "BlindsRequested",
	"BlindsPaid", "ReadyRequested", "Readiness", "PreflopRoundEntered", "FlopRoundEntered", "TurnRoundEntered",
	"RiverRoundEntered", "RoundInitialized", "RoundPrepared", "RoundStarted", "RoundClosed", "GameCompleted",
	"SettlementRequested", "SettlementCompleted", "GameClosed", "NoSuchEvent"}

var vhActions = []string{WagerAction_Fold, WagerAction_Check, WagerAction_Call, WagerAction_AllIn, WagerAction_Bet,
	WagerAction_Raise, "pass", Action_Ready, Action_Pay}

var vhDidActions = []string{"", WagerAction_Fold, WagerAction_Check, WagerAction_Call, WagerAction_AllIn, WagerAction_Bet, WagerAction_Raise}

var vhAllPositions = []string{Position_Dealer, Position_SB, Position_BB, Position_UG, Position_CO}

func vhStatus(name string) TableStateStatus { return vhStatuses[verifrt.IntRange(name, 0, len(vhStatuses)-1)] }
func vhPick(name string, from []string) string { return from[verifrt.IntRange(name, 0, len(from)-1)] }
func vhPickI(name string, i int, from []string) string {
	return from[verifrt.IntRangeI(name, i, 0, len(from)-1)]
}

// ---------- recording callbacks ----------

type vhRec struct {
	updated      int
	errors       int
	lastErr      error
	stateEvents  int
	lastEvent    string
	playerStates int
	reserved     int
	actions      int
	lastAction   TablePlayerGameAction
	autoOpenEnd  int
	readyFirst   int
}

func (r *vhRec) install(te *tableEngine) {
	te.onTableUpdated = func(t *Table) { r.updated++ }
	te.onTableErrorUpdated = func(t *Table, err error) { r.errors++; r.lastErr = err }
	te.onTableStateUpdated = func(ev string, t *Table) { r.stateEvents++; r.lastEvent = ev }
	te.onTablePlayerStateUpdated = func(c, t string, ps *TablePlayerState) { r.playerStates++ }
	te.onTablePlayerReserved = func(c, t string, ps *TablePlayerState) { r.reserved++ }
	te.onGamePlayerActionUpdated = func(a TablePlayerGameAction) { r.actions++; r.lastAction = a }
	te.onAutoGameOpenEnd = func(c, t string) { r.autoOpenEnd++ }
	te.onReadyOpenFirstTableGame = func(c, t string, gc int, ps []*TablePlayerState) { r.readyFirst++ }
}

// ---------- nondeterministic game backend ----------

var vhErrBackend = errors.New("verif: injected backend failure")

type vhCall struct {
	kind  string
	gs    *pokerface.GameState
	opts  *pokerface.GameOptions
	chips int64
}

// vhBackend answers every call with an arbitrary new state or, when its fault
// schedule says so, with an error.
type vhBackend struct {
	calls  []vhCall
	m      int  // players of the states it returns
	faults bool // may fail
	tag    string // names the symbolic state returned by the next call (set by the harness before each step)
	tagN   int
	last   *pokerface.GameState // the state handed back by the latest successful call
	fix    func(*pokerface.GameState) // harness hook: shape the state before it is handed back
}

func (b *vhBackend) step(kind string, gs *pokerface.GameState, opts *pokerface.GameOptions, chips int64) (*pokerface.GameState, error) {
	k := len(b.calls)
	b.calls = append(b.calls, vhCall{kind: kind, gs: gs, opts: opts, chips: chips})
	if b.faults && verifrt.BoolI("bk.fail", b.tagN) {
		// what a failing backend hands back besides the error is its own business (the
		// GameBackend contract does not say nil): nothing, the state it was given, or a state
		// it had already worked out
		if verifrt.BoolI("bk.fail.given", b.tagN) {
			return gs, vhErrBackend
		}
		if verifrt.BoolI("bk.fail.fresh", b.tagN) {
			mf := b.m
			if mf < 2 {
				mf = 2
			}
			return vhArbitraryGS(b.tag+"f", mf), vhErrBackend
		}
		return nil, vhErrBackend
	}
	_ = k
	mm := b.m
	if kind == "create" && mm < 2 {
		mm = 2 // a created hand has at least two entries
	}
	gs2 := vhArbitraryGS(b.tag, mm)
	if b.fix != nil {
		b.fix(gs2)
	}
	b.last = gs2
	if kind == "create" {
		// the hand engine always designates a current player once a hand is created (the
		// table's state handler dereferences that player); natively the state updater
		// goroutine really processes this state
		verifrt.Assume(gs2.Status.CurrentPlayer >= 0)
	}
	return gs2, nil
}

func (b *vhBackend) CreateGame(opts *pokerface.GameOptions) (*pokerface.GameState, error) {
	return b.step("create", nil, opts, 0)
}
func (b *vhBackend) ReadyForAll(gs *pokerface.GameState) (*pokerface.GameState, error) {
	return b.step("readyforall", gs, nil, 0)
}
func (b *vhBackend) PayAnte(gs *pokerface.GameState) (*pokerface.GameState, error) {
	return b.step("payante", gs, nil, 0)
}
func (b *vhBackend) PayBlinds(gs *pokerface.GameState) (*pokerface.GameState, error) {
	return b.step("payblinds", gs, nil, 0)
}
func (b *vhBackend) Next(gs *pokerface.GameState) (*pokerface.GameState, error) {
	return b.step("next", gs, nil, 0)
}
func (b *vhBackend) Pay(gs *pokerface.GameState, chips int64) (*pokerface.GameState, error) {
	return b.step("pay", gs, nil, chips)
}
func (b *vhBackend) Fold(gs *pokerface.GameState) (*pokerface.GameState, error) {
	return b.step("fold", gs, nil, 0)
}
func (b *vhBackend) Check(gs *pokerface.GameState) (*pokerface.GameState, error) {
	return b.step("check", gs, nil, 0)
}
func (b *vhBackend) Call(gs *pokerface.GameState) (*pokerface.GameState, error) {
	return b.step("call", gs, nil, 0)
}
func (b *vhBackend) Allin(gs *pokerface.GameState) (*pokerface.GameState, error) {
	return b.step("allin", gs, nil, 0)
}
func (b *vhBackend) Bet(gs *pokerface.GameState, chips int64) (*pokerface.GameState, error) {
	return b.step("bet", gs, nil, chips)
}
func (b *vhBackend) Raise(gs *pokerface.GameState, chipLevel int64) (*pokerface.GameState, error) {
	return b.step("raise", gs, nil, chipLevel)
}
func (b *vhBackend) Pass(gs *pokerface.GameState) (*pokerface.GameState, error) {
	return b.step("pass", gs, nil, 0)
}

// ---------- arbitrary hand state ----------

// vhArbitraryGS: a hand state with m players; every scalar the table engine
// reads is symbolic.  Allowed-action sets are arbitrary subsets of the nine
// action names.
func vhArbitraryGS(tag string, m int) *pokerface.GameState {
	gs := &pokerface.GameState{
		GameID:    "game-" + tag,
		UpdatedAt: verifrt.Int64(tag + ".updatedAt"),
	}
	gs.Meta.Ante = verifrt.Int64(tag + ".ante")
	gs.Meta.Blind.Dealer = verifrt.Int64(tag + ".blind.dealer")
	gs.Meta.Blind.SB = verifrt.Int64(tag + ".blind.sb")
	gs.Meta.Blind.BB = verifrt.Int64(tag + ".blind.bb")
	gs.Status.Round = vhPick(tag+".round", vhRounds)
	gs.Status.CurrentEvent = vhPick(tag+".event", vhEvents)
	gs.Status.CurrentPlayer = verifrt.IntRange(tag+".cur", -1, m-1)
	gs.Status.CurrentRaiser = verifrt.IntRange(tag+".raiser", -1, m-1)
	gs.Status.CurrentWager = verifrt.Int64(tag + ".wager")
	gs.Status.MiniBet = verifrt.Int64(tag + ".minibet")
	gs.Status.PreviousRaiseSize = verifrt.Int64(tag + ".prevraise")
	for i := 0; i < m; i++ {
		p := &pokerface.PlayerState{Idx: i}
		p.Acted = verifrt.BoolI(tag+".acted", i)
		p.Fold = verifrt.BoolI(tag+".fold", i)
		p.DidAction = vhPickI(tag+".did", i, vhDidActions)
		p.Bankroll = verifrt.Int64I(tag+".bankroll", i)
		p.InitialStackSize = verifrt.Int64I(tag+".initial", i)
		p.StackSize = verifrt.Int64I(tag+".stack", i)
		p.Pot = verifrt.Int64I(tag+".pot", i)
		p.Wager = verifrt.Int64I(tag+".wagerp", i)
		p.AllowedActions = []string{}
		for k, a := range vhActions {
			if verifrt.BoolI(tag+".allow"+vhIDs[i], k) {
				p.AllowedActions = append(p.AllowedActions, a)
			}
		}
		p.Positions = []string{}
		for k, pos := range vhAllPositions {
			if verifrt.BoolI(tag+".pos"+vhIDs[i], k) {
				p.Positions = append(p.Positions, pos)
			}
		}
		p.Combination = &pokerface.CombinationInfo{Power: verifrt.IntI(tag+".power", i)}
		gs.Players = append(gs.Players, p)
	}
	return gs
}

// ---------- arbitrary table engine ----------

// vhRule: rule of the worlds built by vhNewWorld (harnesses for the short-deck
// rule set it before building).
var vhRule = CompetitionRule_Default

// vhConcreteLayout: when set, vhNewWorld seats player i on seat i, everybody
// seated-in with chips and not waiting, buttons on seats 0/1/2 (heads-up: 0/0/1).
// Used by the obligations whose quantifier does not range over seat layouts
// (life cycle, continue handler); everything else stays symbolic.
var vhConcreteLayout = false

type vhWorld struct {
	te  *tableEngine
	rec *vhRec
	bk  *vhBackend
	g   *game
	n   int
	M   int
}

func vhArbitraryStats(i int) TablePlayerGameStatistics {
	return TablePlayerGameStatistics{
		ActionTimes: verifrt.IntI("st.actions", i), RaiseTimes: verifrt.IntI("st.raises", i),
		CallTimes: verifrt.IntI("st.calls", i), CheckTimes: verifrt.IntI("st.checks", i),
		IsFold: verifrt.BoolI("st.fold", i), FoldRound: vhPickI("st.foldround", i, vhRounds),
		IsVPIPChance: verifrt.BoolI("st.vpipc", i), IsVPIP: verifrt.BoolI("st.vpip", i),
		IsPFRChance: verifrt.BoolI("st.pfrc", i), IsPFR: verifrt.BoolI("st.pfr", i),
		IsATSChance: verifrt.BoolI("st.atsc", i), IsATS: verifrt.BoolI("st.ats", i),
		Is3BChance: verifrt.BoolI("st.3bc", i), Is3B: verifrt.BoolI("st.3b", i),
		IsFt3BChance: verifrt.BoolI("st.ft3bc", i), IsFt3B: verifrt.BoolI("st.ft3b", i),
		IsCheckRaiseChance: verifrt.BoolI("st.crc", i), IsCheckRaise: verifrt.BoolI("st.cr", i),
		IsCBetChance: verifrt.BoolI("st.cbc", i), IsCBet: verifrt.BoolI("st.cb", i),
		IsFtCBChance: verifrt.BoolI("st.ftcbc", i), IsFtCB: verifrt.BoolI("st.ftcb", i),
		ShowdownWinningChance: verifrt.BoolI("st.sdc", i), IsShowdownWinning: verifrt.BoolI("st.sd", i),
	}
}

// vhNewWorld builds a table engine with n seated players on M seats in an
// arbitrary state satisfying Inv_T (table <-> seat manager agreement) and, when
// hand > 0, Inv_H with `hand` participants.  The seat manager underneath is the
// real one.
func vhNewWorld(n, M, hand int, withGame bool) *vhWorld {
	w := &vhWorld{n: n, M: M, rec: &vhRec{}, bk: &vhBackend{m: hand, tag: "bk0"}}
	// the engine is wired by the real constructor and CreateTable (open-game manager with
	// the real OnOpenGameReady callback); table and seat manager are then replaced by
	// arbitrary ones
	te := NewTableEngine(&TableEngineOptions{GameContinueInterval: verifrt.IntRange("opt.continue", 0, 3), OpenGameTimeout: 2}, WithGameBackend(w.bk)).(*tableEngine)
	te.CreateTable(TableSetting{TableID: "T1", Meta: TableMeta{TableMaxSeatCount: M, TableMinPlayerCount: 2, Rule: vhRule, Mode: CompetitionMode_CT}, Blind: TableBlindState{Level: 1}})
	w.te = te
	w.rec.install(te)
	rule := vhRule
	t := &Table{ID: "T1", UpdateSerial: verifrt.Int64("serial")}
	t.Meta = TableMeta{CompetitionID: "C1", Rule: rule, Mode: vhPick("mode", []string{CompetitionMode_CT, CompetitionMode_MTT, CompetitionMode_Cash}),
		MaxDuration: verifrt.IntRange("maxdur", 0, 10), TableMaxSeatCount: M, TableMinPlayerCount: verifrt.IntRange("minplayers", 2, 3),
		MinChipUnit: 1, ActionTime: verifrt.Int("actiontime")}
	st := &TableState{
		Status:             vhStatus("status"),
		StartAt:            verifrt.Int64("startat"),
		SeatMap:            NewDefaultSeatMap(M),
		BlindState:         &TableBlindState{Level: verifrt.IntRange("blind.level", -1, 3), Ante: verifrt.Int64("blind.ante"), Dealer: verifrt.Int64("blind.dealer"), SB: verifrt.Int64("blind.sb"), BB: verifrt.Int64("blind.bb")},
		CurrentDealerSeat:  UnsetValue,
		CurrentSBSeat:      UnsetValue,
		CurrentBBSeat:      UnsetValue,
		CurrentActionEndAt: verifrt.Int64("endat"),
		PlayerStates:       []*TablePlayerState{},
		GameCount:          verifrt.IntRange("gamecount", 0, 5),
		GamePlayerIndexes:  []int{},
		NextBBOrderPlayerIDs: []string{},
	}
	t.State = st
	te.table = t
	seats := make([]seat_manager.VHSeat, M)
	for i := 0; i < n; i++ {
		s := i
		if !vhConcreteLayout {
			s = verifrt.IntRangeI("seat", i, 0, M-1)
		}
		for j := 0; j < i; j++ {
			verifrt.Assume(st.PlayerStates[j].Seat != s)
		}
		p := &TablePlayerState{PlayerID: vhIDs[i], Seat: s, Positions: []string{}, IsParticipated: verifrt.BoolI("part", i),
			Bankroll: verifrt.Int64I("bankroll", i), IsIn: verifrt.BoolI("isin", i), GameStatistics: vhArbitraryStats(i)}
		verifrt.Assume(p.Bankroll >= 0 && p.Bankroll < 1<<40)
		st.PlayerStates = append(st.PlayerStates, p)
		st.SeatMap[s] = i
		if vhConcreteLayout {
			p.IsIn = true
			seats[s] = seat_manager.VHSeat{Occ: true, ID: vhIDs[i], In: true, Btw: false, Chips: true}
		} else {
			seats[s] = seat_manager.VHSeat{Occ: true, ID: vhIDs[i], In: p.IsIn, Btw: verifrt.BoolI("btw", i), Chips: verifrt.BoolI("chips", i)}
		}
	}
	init := verifrt.Bool("sm.init")
	D := verifrt.IntRange("sm.D", -1, M-1)
	SB := verifrt.IntRange("sm.SB", -1, M-1)
	BB := verifrt.IntRange("sm.BB", -1, M-1)
	if vhConcreteLayout {
		init, D, SB, BB = true, 0, 1, 2
		if n == 2 {
			SB, BB = 0, 1
		}
	}
	if init && rule == CompetitionRule_ShortDeck {
		verifrt.Assume(D >= 0 && SB == -1 && BB == -1)
	} else if init {
		verifrt.Assume(D >= 0 && SB >= 0 && BB >= 0 && SB != BB)
	} else {
		verifrt.Assume(D == -1 && SB == -1 && BB == -1)
	}
	te.sm = seat_manager.VHBuild(M, rule, seats, D, SB, BB, init)
	if hand > 0 {
		// Inv_H: the first `hand` players (in an arbitrary order) are the hand's players
		for k := 0; k < hand; k++ {
			idx := verifrt.IntRangeI("gpi", k, 0, n-1)
			for j := 0; j < k; j++ {
				verifrt.Assume(st.GamePlayerIndexes[j] != idx)
			}
			st.GamePlayerIndexes = append(st.GamePlayerIndexes, idx)
		}
	}
	if withGame {
		gs := vhArbitraryGS("gs", hand)
		g := &game{backend: w.bk, gs: gs, rg: syncsaga.NewReadyGroup(), incomingStates: make(chan *pokerface.GameState, 1024),
			onAntesReceived: func(gs *pokerface.GameState) {}, onBlindsReceived: func(gs *pokerface.GameState) {},
			onGameStateUpdated: func(gs *pokerface.GameState) {}, onGameRoundClosed: func(*pokerface.GameState) {},
			onGameErrorUpdated: func(gs *pokerface.GameState, err error) {}}
		w.g = g
		te.game = g
		st.GameState = gs
	}
	return w
}

func vhHasString(xs []string, s string) bool {
	for _, x := range xs {
		if x == s {
			return true
		}
	}
	return false
}
