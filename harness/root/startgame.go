package pokertable

// startGame-based obligations: C12 (blinds of the hand), C01 O-2 / C02 O-3
// (stacks handed to the hand engine), C06 O-2 (labels forwarded), C15 O-2.

import (
	"github.com/weedbox/pokerface"
	"github.com/weedbox/pokertable/internal/verifrt"
)

// vhStartWorld: a table just opened (status arbitrary, m participants listed in
// GamePlayerIndexes, labels arbitrary subsets), backend without faults.
func vhStartWorld() (*vhWorld, int) {
	n := verifrt.Cfg("n")
	m := verifrt.Cfg("m")
	w := vhNewWorld(n, verifrt.Cfg("M"), m, false)
	// every rule set: startGame builds the hand options differently for each
	w.te.table.Meta.Rule = vhPick("start.rule", []string{CompetitionRule_Default, CompetitionRule_ShortDeck, CompetitionRule_Omaha})
	for i, p := range w.te.table.State.PlayerStates {
		p.Positions = []string{}
		for k, pos := range vhAllPositions {
			if verifrt.BoolI("ppos"+vhIDs[i], k) {
				p.Positions = append(p.Positions, pos)
			}
		}
	}
	return w, m
}


// VH_C12_StartGame: the hand is created with, and publishes, the blinds in
// force at the call; a later UpdateBlind touches neither.
func VH_C12_StartGame() {
	w, _ := vhStartWorld()
	te := w.te
	b := *te.table.State.BlindState
	// the hand engine may refuse to create the hand (fault, or e.g. a dealt-in player without chips)
	w.bk.faults = true
	w.bk.tagN = 0
	st0, gb0 := te.table.State.Status, te.table.State.GameBlindState
	err := te.startGame()
	if verifrt.BoolI("bk.fail", 0) {
		verifrt.Reach("creation refused")
		verifrt.Assert(err == vhErrBackend, "a refused creation is reported to the caller")
		verifrt.Assert(te.table.State.Status == st0, "the table is flagged as playing only once the hand was really started")
		verifrt.Assert(te.table.State.GameBlindState == gb0 && te.table.State.GameState == nil, "a hand that could not be started publishes nothing")
		verifrt.Reach("end")
		return
	}
	verifrt.Assert(err == nil, "startGame succeeds with a working backend")
	verifrt.Assert(len(w.bk.calls) == 1 && w.bk.calls[0].kind == "create", "exactly one CreateGame call")
	opts := w.bk.calls[0].opts
	verifrt.Assert(opts.Ante == b.Ante && opts.Blind.Dealer == b.Dealer && opts.Blind.SB == b.SB && opts.Blind.BB == b.BB, "hand options carry the blinds in force at open")
	gb := te.table.State.GameBlindState
	verifrt.Assert(gb != nil && gb.Level == b.Level && gb.Ante == b.Ante && gb.Dealer == b.Dealer && gb.SB == b.SB && gb.BB == b.BB, "published hand blind level equals the level in force at open")
	verifrt.Assert(gb != te.table.State.BlindState, "hand blind state is a copy, not an alias of the table blind state")
	verifrt.Assert(te.table.State.Status == TableStateStatus_TableGamePlaying, "status playing after start")

	// blind update while the hand runs
	te.UpdateBlind(verifrt.IntRange("nb.level", -1, 5), verifrt.Int64("nb.ante"), verifrt.Int64("nb.dealer"), verifrt.Int64("nb.sb"), verifrt.Int64("nb.bb"))
	gb2 := te.table.State.GameBlindState
	verifrt.Assert(gb2.Level == b.Level && gb2.Ante == b.Ante && gb2.Dealer == b.Dealer && gb2.SB == b.SB && gb2.BB == b.BB, "blind update during the hand leaves the hand's blind level alone")
	verifrt.Assert(opts.Ante == b.Ante && opts.Blind.Dealer == b.Dealer && opts.Blind.SB == b.SB && opts.Blind.BB == b.BB, "blind update during the hand leaves the hand options alone")
	verifrt.Reach("end")
}

// VH_C12_UpdateBlindFrame: UpdateBlind at any phase changes the table blind
// state only.
func VH_C12_UpdateBlindFrame() {
	n := verifrt.Cfg("n")
	w := vhNewWorld(n, verifrt.Cfg("M"), 2, true)
	te := w.te
	te.table.State.GameBlindState = &TableBlindState{Level: verifrt.IntRange("gb.level", -1, 3), Ante: verifrt.Int64("gb.ante"), Dealer: verifrt.Int64("gb.dealer"), SB: verifrt.Int64("gb.sb"), BB: verifrt.Int64("gb.bb")}
	gb := *te.table.State.GameBlindState
	lv, a, d, sb, bb := verifrt.IntRange("nb.level", -1, 5), verifrt.Int64("nb.ante"), verifrt.Int64("nb.dealer"), verifrt.Int64("nb.sb"), verifrt.Int64("nb.bb")
	saved := te.table.State.BlindState
	te.table.State.BlindState = nil
	snap := verifrt.Snapshot(te.table)
	te.table.State.BlindState = saved
	te.UpdateBlind(lv, a, d, sb, bb)
	bs := te.table.State.BlindState
	verifrt.Assert(bs.Level == lv && bs.Ante == a && bs.Dealer == d && bs.SB == sb && bs.BB == bb, "UpdateBlind stores the new level")
	verifrt.Assert(*te.table.State.GameBlindState == gb, "hand blind level untouched")
	te.table.State.BlindState = nil
	verifrt.Assert(verifrt.SameState(snap, te.table), "nothing but the table blind state changes")
	te.table.State.BlindState = saved
	verifrt.Reach("end")
}

// VH_C12_Break: a break level never opens a hand and pauses the table.
func VH_C12_Break() {
	n := verifrt.Cfg("n")
	w := vhNewWorld(n, verifrt.Cfg("M"), 0, false)
	te := w.te
	te.table.State.BlindState.Level = -1
	verifrt.Assert(te.table.ShouldPause(), "break level: table should pause")
	snap := verifrt.Snapshot(te.table)
	nt, err := te.openGame(te.table)
	verifrt.Assert(err != nil && nt == te.table, "break level: openGame refuses")
	verifrt.Assert(verifrt.SameState(snap, te.table), "break level: refused open leaves the table untouched")
	verifrt.Assert(len(w.bk.calls) == 0, "break level: backend not called")
	verifrt.Reach("end")
}

// VH_C12_CreateOnBreak: a table created on a break starts paused.
func VH_C12_CreateOnBreak() {
	te := NewTableEngine(NewTableEngineOptions(), WithGameBackend(&vhBackend{})).(*tableEngine)
	lv := verifrt.IntRange("level", -1, 3)
	// every mode, with or without players seated by the creation itself (tournament tables
	// are created with their players when tables are split or merged — also during a break)
	mode := vhPick("create.mode", []string{CompetitionMode_CT, CompetitionMode_MTT, CompetitionMode_Cash})
	jps := []JoinPlayer{}
	jn := verifrt.IntRange("create.jn", 0, 2)
	for i := 0; i < 2; i++ {
		if i < jn {
			jps = append(jps, JoinPlayer{PlayerID: vhNewIDs[i], RedeemChips: 100, Seat: i})
		}
	}
	t, err := te.CreateTable(TableSetting{TableID: "T", Meta: TableMeta{TableMaxSeatCount: verifrt.Cfg("M"), TableMinPlayerCount: 2, Rule: CompetitionRule_Default, Mode: mode},
		Blind: TableBlindState{Level: lv, Ante: 0, Dealer: 0, SB: 10, BB: 20}, JoinPlayers: jps})
	verifrt.Assert(err == nil && t != nil, "create succeeds")
	if lv == -1 {
		verifrt.Assert(t.State.Status == TableStateStatus_TablePausing, "created on a break: paused")
	} else if mode == CompetitionMode_MTT && jn > 0 {
		verifrt.Assert(t.State.Status == TableStateStatus_TableBalancing, "tournament table created with players off a break: balancing")
	} else {
		verifrt.Assert(t.State.Status == TableStateStatus_TableCreated, "created off a break: created")
	}
	verifrt.Reach("end")
}

// VH_C01_StartStacks: entry i of the hand starts with the bankroll of the
// player GamePlayerIndexes[i] (C01 O-2, C02 O-3).
func VH_C01_StartStacks() {
	w, m := vhStartWorld()
	te := w.te
	err := te.startGame()
	verifrt.Assert(err == nil, "startGame succeeds")
	opts := w.bk.calls[0].opts
	verifrt.Assert(len(opts.Players) == m, "one hand entry per participant")
	for i := 0; i < m; i++ {
		pl := te.table.State.PlayerStates[te.table.State.GamePlayerIndexes[i]]
		verifrt.Assert(opts.Players[i].Bankroll == pl.Bankroll, "hand entry starts with that player's bankroll")
	}
	verifrt.Reach("end")
}

// VH_C06_Forward: the hand engine receives each participant's labels; entry 0
// additionally gets the dealer label iff it does not carry it; table-side
// labels are not modified by that.
func VH_C06_Forward() {
	w, m := vhStartWorld()
	te := w.te
	pre := make([][]string, 0)
	for _, p := range te.table.State.PlayerStates {
		cp := make([]string, len(p.Positions))
		copy(cp, p.Positions)
		pre = append(pre, cp)
	}
	err := te.startGame()
	verifrt.Assert(err == nil, "startGame succeeds")
	opts := w.bk.calls[0].opts
	for i := 0; i < m; i++ {
		idx := te.table.State.GamePlayerIndexes[i]
		want := pre[idx]
		got := opts.Players[i].Positions
		for _, pos := range vhAllPositions {
			exp := vhHasString(want, pos)
			if i == 0 && pos == Position_Dealer {
				exp = true
			}
			verifrt.Assert(vhHasString(got, pos) == exp, "hand engine receives the player's labels (plus dealer on the first entry)")
		}
	}
	for i, p := range te.table.State.PlayerStates {
		same := len(p.Positions) == len(pre[i])
		if same {
			for k := range pre[i] {
				if p.Positions[k] != pre[i][k] {
					same = false
				}
			}
		}
		verifrt.Assert(same, "table-side labels are not modified by forwarding")
	}
	verifrt.Reach("end")
}

// VH_C15_RoundClosed: the round-closed handler installed by startGame clears
// the deadline.
func VH_C15_RoundClosed() {
	w, _ := vhStartWorld()
	te := w.te
	err := te.startGame()
	verifrt.Assert(err == nil, "startGame succeeds")
	g := te.game.(*game)
	te.table.State.CurrentActionEndAt = verifrt.Int64("endat2")
	g.onGameRoundClosed(&pokerface.GameState{})
	verifrt.Assert(te.table.State.CurrentActionEndAt == 0, "deadline cleared when the betting round closes")

	// the same through the game's own state handling, whether or not the automatic advance
	// to the next round succeeds (the backend may fail right there)
	te.table.State.CurrentActionEndAt = verifrt.Int64("endat3")
	w.bk.faults = true
	w.bk.tagN = 1
	closed := vhArbitraryGS("rc", w.bk.m)
	closed.Status.CurrentEvent = "RoundClosed"
	verifrt.Assume(closed.Status.CurrentPlayer >= 0)
	g.gs = closed
	g.handleGameState(closed)
	verifrt.Assert(te.table.State.CurrentActionEndAt == 0, "a closed betting round clears the deadline even when the advance to the next round fails")
	verifrt.Reach("end")
}
