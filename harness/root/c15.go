package pokertable

// C15 — the published action deadline matches the turn.

import (
	"time"

	"github.com/weedbox/pokerface"
	"github.com/weedbox/pokertable/internal/verifrt"
)

func vhIsWager(a string) bool {
	return a == WagerAction_Call || a == WagerAction_Raise || a == WagerAction_AllIn || a == WagerAction_Check || a == WagerAction_Fold || a == WagerAction_Bet
}

// VH_C15_Update: updateCurrentActionEndAt for an arbitrary hand state.
func VH_C15_Update() {
	m := verifrt.Cfg("m")
	w := vhNewWorld(m, verifrt.Cfg("M"), m, true)
	te := w.te
	gs := te.table.State.GameState
	verifrt.Assume(gs.Status.CurrentPlayer >= 0)
	verifrt.Assume(te.table.Meta.ActionTime >= 0 && te.table.Meta.ActionTime < 1<<31)
	ev := pokerface.GameEvent(verifrt.IntRange("event", 0, 20))
	old := te.table.State.CurrentActionEndAt
	p := gs.GetPlayer(gs.Status.CurrentPlayer)
	allWager := true
	for _, a := range p.AllowedActions {
		if !vhIsWager(a) {
			allWager = false
		}
	}
	round := gs.Status.Round
	asked := te.table.State.Status == TableStateStatus_TableGamePlaying && ev == pokerface.GameEvent_RoundStarted &&
		(round == GameRound_Preflop || round == GameRound_Flop || round == GameRound_Turn || round == GameRound_River) &&
		len(p.AllowedActions) > 0 && allWager && !p.Acted

	t0 := time.Now().Unix()
	te.updateCurrentActionEndAt(ev, gs)
	t1 := time.Now().Unix()

	got := te.table.State.CurrentActionEndAt
	if asked {
		verifrt.Reach("asked")
		at := int64(te.table.Meta.ActionTime)
		verifrt.Assert(got >= t0+at && got <= t1+at, "deadline = time of the request + action time")
	} else {
		verifrt.Reach("not asked")
		verifrt.Assert(got == old, "deadline untouched when nobody is asked for a wager action")
	}
	verifrt.Reach("end")
}

// VH_C15_Extend: an extension moves the deadline later by exactly d seconds.
func VH_C15_Extend() {
	w := vhNewWorld(2, 2, 0, false)
	te := w.te
	old := te.table.State.CurrentActionEndAt
	d := verifrt.Int("d")
	verifrt.Assume(d >= 0 && d < 1<<31 && old >= 0 && old < 1<<40)
	got, err := te.PlayerExtendActionDeadline("p0", d)
	verifrt.Assert(err == nil, "extension succeeds")
	verifrt.Assert(got == old+int64(d) && te.table.State.CurrentActionEndAt == got, "deadline extended by exactly the requested seconds")
	verifrt.Reach("end")
}
