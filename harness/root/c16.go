package pokertable

// C16 — concurrent callers see one-at-a-time behaviour.
// What is decided here is the lock discipline on every path of every locked
// operation: each access to the engine's shared state (the engine object, the
// table and everything reachable from it, the game object) inside the operation
// happens while the engine mutex is held, and the mutex is released on every
// return.  Mutual exclusion then makes the operations atomic with respect to each
// other, so concurrent executions equal some serial order (whose behaviour is
// covered by C03 / C10).

import (
	"github.com/weedbox/pokertable/internal/verifrt"
)

// VH_C16_EngineLock: op 0..8 = Player<Action>, 9 PlayerReserve, 10 PlayersLeave, 11 UpdateTablePlayers.
func VH_C16_EngineLock() {
	op := verifrt.Cfg("op")
	n := verifrt.Cfg("n")
	m := verifrt.Cfg("m")
	w := vhNewWorld(n, verifrt.Cfg("M"), m, true)
	w.bk.faults = true
	te := w.te
	callerIdx := verifrt.IntRange("caller", 0, n)
	caller := "stranger"
	if callerIdx < n {
		caller = vhIDs[callerIdx]
	}
	chips := verifrt.Int64("chips")
	seat := verifrt.IntRange("arg.seat", -1, w.M-1)
	leave := []string{caller}
	if verifrt.Bool("leave2") {
		leave = append(leave, vhIDs[verifrt.IntRange("leave.other", 0, n-1)])
	}

	verifrt.Assert(!verifrt.LockHeld(&te.lock), "lock free before the operation")
	verifrt.Watch(&te.lock, te)
	switch {
	case op <= 8:
		vhDo(te, op, caller, chips)
	case op == 9:
		te.PlayerReserve(JoinPlayer{PlayerID: caller, RedeemChips: chips, Seat: seat})
	case op == 10:
		te.PlayersLeave(leave)
	case op == 11:
		te.UpdateTablePlayers([]JoinPlayer{{PlayerID: "newcomer", RedeemChips: chips, Seat: seat}}, leave)
	}
	touched := verifrt.Unwatch()
	verifrt.Assert(touched > 0, "the operation touches shared state (watch is not vacuous)")
	verifrt.Assert(!verifrt.LockHeld(&te.lock), "lock released on every return path")
	verifrt.Reach("end")
}

// VH_C16_OpenLock: the hand-opening operation itself (tableGameOpen, including its retry
// path after a refused position computation) is one critical section too: it replaces
// the table by a clone, so a membership operation that could run between the clone and
// the commit would be lost.
func VH_C16_OpenLock() {
	n := verifrt.Cfg("n")
	M := verifrt.Cfg("M")
	w, _ := vhStandbyWorld(n, M)
	te := w.te
	w.bk.faults = true
	verifrt.Assert(!verifrt.LockHeld(&te.lock), "lock free before the operation")
	verifrt.Watch(&te.lock, te)
	te.tableGameOpen()
	touched := verifrt.Unwatch()
	verifrt.Assert(touched > 0, "the operation touches shared state (watch is not vacuous)")
	verifrt.Assert(!verifrt.LockHeld(&te.lock), "lock released on every return path")
	verifrt.Reach("end")
}

// VH_C16_DeliverySync: settlement and the reset between hands run on the state-updater
// goroutine without the engine lock; what orders them after a player action that is still
// in flight (holding the lock, statistics not yet bumped) is that the delivery of the
// hand-closing state takes the engine lock once before it settles.  This is the edge the
// serial-order argument of C16 / C14 relies on, checked here as a ghost condition.
func VH_C16_DeliverySync() {
	w, m, _ := vhSettleWorld()
	te := w.te
	gs := te.table.State.GameState
	te.table.State.Status = TableStateStatus_TableGamePlaying
	gs.Status.CurrentEvent = "GameClosed"
	// the closing state may or may not designate a current player / allowed actions
	gs.Status.CurrentPlayer = verifrt.IntRange("closing.cur", -1, m-1)
	verifrt.ResetLockAcquired(&te.lock)
	verifrt.Assert(!verifrt.LockHeld(&te.lock), "lock free before the delivery")
	te.updateGameState(gs)
	verifrt.Assert(te.table.State.Status != TableStateStatus_TableGamePlaying, "the closing state settles the hand")
	verifrt.Assert(verifrt.LockAcquired(&te.lock), "a state delivery that ends the hand takes the engine lock before it settles (orders settlement after an action still in flight)")
	verifrt.Assert(!verifrt.LockHeld(&te.lock), "lock released on every return path")
	verifrt.Reach("end")
}
