package pokertable

// C16 — concurrent callers see one-at-a-time behaviour.
// What is decided here is the lock discipline on every path of every locked
// operation: each access to the engine's shared state (the engine object, the
// table and everything reachable from it, the game object) inside the operation
// happens while the engine mutex is held, and the mutex is released on every
// return.  Mutual exclusion then makes the operations atomic with respect to each
// other, so concurrent executions equal some serial order (whose behaviour is
// covered by C03 / C10).

import (
	"github.com/weedbox/pokertable/internal/verifrt"
)

// VH_C16_EngineLock: op 0..8 = Player<Action>, 9 PlayerReserve, 10 PlayersLeave, 11 UpdateTablePlayers.
func VH_C16_EngineLock() {
	op := verifrt.Cfg("op")
	n := verifrt.Cfg("n")
	m := verifrt.Cfg("m")
	w := vhNewWorld(n, verifrt.Cfg("M"), m, true)
	w.bk.faults = true
	te := w.te
	callerIdx := verifrt.IntRange("caller", 0, n)
	caller := "stranger"
	if callerIdx < n {
		caller = vhIDs[callerIdx]
	}
	chips := verifrt.Int64("chips")
	seat := verifrt.IntRange("arg.seat", -1, w.M-1)
	leave := []string{caller}
	if verifrt.Bool("leave2") {
		leave = append(leave, vhIDs[verifrt.IntRange("leave.other", 0, n-1)])
	}

	verifrt.Assert(!verifrt.LockHeld(&te.lock), "lock free before the operation")
	verifrt.Watch(&te.lock, te)
	switch {
	case op <= 8:
		vhDo(te, op, caller, chips)
	case op == 9:
		te.PlayerReserve(JoinPlayer{PlayerID: caller, RedeemChips: chips, Seat: seat})
	case op == 10:
		te.PlayersLeave(leave)
	case op == 11:
		te.UpdateTablePlayers([]JoinPlayer{{PlayerID: "newcomer", RedeemChips: chips, Seat: seat}}, leave)
	}
	touched := verifrt.Unwatch()
	verifrt.Assert(touched > 0, "the operation touches shared state (watch is not vacuous)")
	verifrt.Assert(!verifrt.LockHeld(&te.lock), "lock released on every return path")
	verifrt.Reach("end")
}
