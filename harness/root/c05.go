package pokertable

// C05 — exactly the eligible players are dealt in; newcomers wait for the blind.

import (
	"github.com/weedbox/pokertable/internal/verifrt"
	"github.com/weedbox/pokertable/seat_manager"
)

func vhSeatActive(te *tableEngine, seat int) bool {
	s := seat_manager.VHSeatOf(te.sm, seat)
	return s.Occ && s.In && s.Chips && !s.Btw
}

// VH_C05_OpenGame: openGame deals in exactly the players the seat manager calls
// active after positions were (re)computed, never fewer than two, and leaves the
// engine's table untouched.
func VH_C05_OpenGame() {
	n := verifrt.Cfg("n")
	M := verifrt.Cfg("M")
	w := vhNewWorld(n, M, 0, false)
	te := w.te
	gc := te.table.State.GameCount
	snap := verifrt.Snapshot(te.table)

	nt, err := te.openGame(te.table)

	verifrt.Assert(verifrt.SameState(snap, te.table), "openGame works on a copy: the engine's table is untouched")
	if err != nil {
		verifrt.Reach("refused")
		verifrt.Assert(nt == te.table, "refused open returns the old table")
	} else {
		verifrt.Reach("opened")
		verifrt.Assert(nt != te.table && nt.State.Status == TableStateStatus_TableGameOpened && nt.State.GameCount == gc+1, "opened hand: new table object, status opened, game count + 1")
		cnt := 0
		for i, p := range nt.State.PlayerStates {
			act := vhSeatActive(te, p.Seat)
			verifrt.Assert(p.IsParticipated == act, "dealt in iff seated-in, with chips and not waiting for the big blind")
			if act {
				cnt++
			}
			in := false
			for _, idx := range nt.State.GamePlayerIndexes {
				if idx == i {
					in = true
				}
			}
			verifrt.Assert(in == act, "the hand's player list holds exactly the dealt-in players")
		}
		verifrt.Assert(cnt >= 2 && len(nt.State.GamePlayerIndexes) == cnt, "a hand never opens with fewer than two dealt-in players")
		verifrt.Assert(nt.State.CurrentDealerSeat == te.sm.CurrentDealerSeatID() && nt.State.CurrentSBSeat == te.sm.CurrentSBSeatID() && nt.State.CurrentBBSeat == te.sm.CurrentBBSeatID(), "published button seats are the seat manager's")
	}
	verifrt.Reach("end")
}

// VH_C05_Continue: after every hand has-chips follows the bankroll; a re-buy
// makes the player eligible again; joining marks the player seated-in in both views.
func VH_C05_Continue() {
	n := verifrt.Cfg("n")
	M := verifrt.Cfg("M")
	w := vhNewWorld(n, M, 0, false)
	te := w.te
	op := verifrt.Cfg("op")
	who := verifrt.IntRange("who", 0, n-1)
	switch op {
	case 0:
		// every mode (cash / CT tables take their own branch of the continue handler)
		te.table.Meta.Mode = vhPick("cont.mode", []string{CompetitionMode_MTT, CompetitionMode_CT, CompetitionMode_Cash})
		verifrt.Assume(vhInvT(te, M))
		isIn := make([]bool, n)
		for i, p := range te.table.State.PlayerStates {
			isIn[i] = p.IsIn
		}
		err := te.continueGame([]*TablePlayerState{})
		verifrt.Assert(err == nil, "continueGame succeeds")
		verifrt.Assert(vhInvT(te, M), "after a hand, seat map, player list and seat manager still agree (same occupants, same seated-in flags)")
		for i, p := range te.table.State.PlayerStates {
			verifrt.Assert(p.IsIn == isIn[i], "ending a hand leaves every player's seated-in flag alone")
		}
		for _, p := range te.table.State.PlayerStates {
			s := seat_manager.VHSeatOf(te.sm, p.Seat)
			verifrt.Assert(s.Occ && s.Chips == (p.Bankroll > 0), "after a hand, has-chips in the seat manager equals bankroll > 0")
			verifrt.Assert(p.IsParticipated == (s.In && s.Chips && !s.Btw), "dealt-in flag refreshed from the seat manager")
		}
	case 1:
		p := te.table.State.PlayerStates[who]
		amount := verifrt.Int64("amount")
		verifrt.Assume(amount > 0 && amount < 1<<40)
		err := te.PlayerReserve(JoinPlayer{PlayerID: p.PlayerID, RedeemChips: amount, Seat: -1})
		verifrt.Assert(err == nil, "re-buy succeeds")
		s := seat_manager.VHSeatOf(te.sm, p.Seat)
		verifrt.Assert(s.Occ && s.Chips && p.Bankroll > 0, "re-buy: the player has chips in both views")
	case 2:
		p := te.table.State.PlayerStates[who]
		err := te.PlayerJoin(p.PlayerID)
		verifrt.Assert(err == nil, "join succeeds for a seated player")
		s := seat_manager.VHSeatOf(te.sm, p.Seat)
		verifrt.Assert(p.IsIn && s.Occ && s.In, "joining marks the player seated-in in the table and in the seat manager")
	case 3:
		// chips added between hands (add-on): like the re-buy, it must make a busted player
		// eligible again — the seat manager's has-chips view is what the next rotation uses
		st := te.table.State.Status
		verifrt.Assume(st != TableStateStatus_TableGameOpened && st != TableStateStatus_TableGamePlaying && st != TableStateStatus_TableGameSettled)
		p := te.table.State.PlayerStates[who]
		amount := verifrt.Int64("amount")
		verifrt.Assume(amount > 0 && amount < 1<<40)
		verifrt.Assume(p.Bankroll >= 0 && p.Bankroll < 1<<40)
		err := te.PlayerRedeemChips(JoinPlayer{PlayerID: p.PlayerID, RedeemChips: amount})
		verifrt.Assert(err == nil, "add-on succeeds")
		s := seat_manager.VHSeatOf(te.sm, p.Seat)
		verifrt.Assert(s.Occ && s.Chips && p.Bankroll > 0, "add-on between hands: the player has chips in both views")
	}
	verifrt.Reach("end")
}
