package pokertable

// C03 — seat bookkeeping stays exclusive, consistent and all-or-nothing.

import (
	"github.com/weedbox/pokertable/internal/verifrt"
	"github.com/weedbox/pokertable/seat_manager"
)

// vhInvT: Inv_T of DESIGN.md — seat map, player list and seat manager name the
// same occupant for every seat with the same seated-in flag, everything inside
// the configured seat count.
func vhInvT(te *tableEngine, M int) bool {
	st := te.table.State
	if len(st.SeatMap) != M || len(st.PlayerStates) > M || seat_manager.VHSeatCount(te.sm) != M {
		return false
	}
	for i, p := range st.PlayerStates {
		if p.Seat < 0 || p.Seat >= M || st.SeatMap[p.Seat] != i {
			return false
		}
		for j := 0; j < i; j++ {
			if st.PlayerStates[j].PlayerID == p.PlayerID {
				return false
			}
		}
	}
	for s := 0; s < M; s++ {
		idx := st.SeatMap[s]
		sp := seat_manager.VHSeatOf(te.sm, s)
		if idx < 0 {
			if idx != -1 || sp.Occ {
				return false
			}
			continue
		}
		if idx >= len(st.PlayerStates) {
			return false
		}
		p := st.PlayerStates[idx]
		if p.Seat != s || !sp.Occ || sp.ID != p.PlayerID || sp.In != p.IsIn {
			return false
		}
	}
	return true
}

type vhSMSnap struct{ seats []seat_manager.VHSeat }

func vhSnapSM(te *tableEngine, M int) vhSMSnap {
	s := vhSMSnap{}
	for i := 0; i < M; i++ {
		s.seats = append(s.seats, seat_manager.VHSeatOf(te.sm, i))
	}
	return s
}

func vhSameSM(te *tableEngine, M int, s vhSMSnap) bool {
	if seat_manager.VHSeatCount(te.sm) != M {
		return false
	}
	for i := 0; i < M; i++ {
		if seat_manager.VHSeatOf(te.sm, i) != s.seats[i] {
			return false
		}
	}
	return true
}

var vhNewIDs = []string{"x0", "x1", "x2"}

// an id argument: a seated player, a fresh id, or a repetition
func vhAnyID(name string, n int) string {
	k := verifrt.IntRange(name, 0, n+len(vhNewIDs)-1)
	if k < n {
		return vhIDs[k]
	}
	return vhNewIDs[k-n]
}

// VH_C03_Op: one membership operation with arbitrary (valid or invalid)
// arguments from an arbitrary consistent state between hands.
// op: 0 PlayerReserve, 1 PlayerJoin, 2 PlayersLeave, 3 UpdateTablePlayers.
func VH_C03_Op() {
	n := verifrt.Cfg("n")
	M := verifrt.Cfg("M")
	op := verifrt.Cfg("op")
	w := vhNewWorld(n, M, 0, false)
	te := w.te
	st := te.table.State
	verifrt.Assume(st.Status != TableStateStatus_TableGameOpened && st.Status != TableStateStatus_TableGamePlaying && st.Status != TableStateStatus_TableGameSettled)
	verifrt.Assume(vhInvT(te, M))
	snapT := verifrt.Snapshot(te.table)
	snapSM := vhSnapSM(te, M)
	seatLo, seatHi := -1, M-1
	if verifrt.Cfg("badseats") == 1 {
		seatLo, seatHi = -2, M+1 // seats outside the table
	}

	var err error
	var joined []string
	switch op {
	case 0:
		jp := JoinPlayer{PlayerID: vhAnyID("id0", n), RedeemChips: verifrt.Int64("chips0"), Seat: verifrt.IntRange("seat0", seatLo, seatHi)}
		wasSeated := te.table.FindPlayerIdx(jp.PlayerID) >= 0
		full := len(st.PlayerStates) == M
		err = te.PlayerReserve(jp)
		if !wasSeated {
			joined = []string{jp.PlayerID}
		}
		if err == nil && !wasSeated {
			idx := te.table.FindPlayerIdx(jp.PlayerID)
			verifrt.Assert(idx >= 0 && (jp.Seat == -1 || te.table.State.PlayerStates[idx].Seat == jp.Seat), "a fixed-seat reservation gets that seat")
		}
		if full && !wasSeated {
			verifrt.Assert(err != nil, "a full table refuses a new player")
		}
	case 1:
		err = te.PlayerJoin(vhAnyID("id0", n))
	case 2:
		ids := []string{vhAnyID("id0", n)}
		if verifrt.Bool("two") {
			ids = append(ids, vhAnyID("id1", n))
		}
		unknown := false
		for _, id := range ids {
			if te.table.FindPlayerIdx(id) < 0 {
				unknown = true
			}
		}
		dup := len(ids) == 2 && ids[0] == ids[1]
		err = te.PlayersLeave(ids)
		if err == nil {
			for _, id := range ids {
				verifrt.Assert(te.table.FindPlayerIdx(id) < 0, "a player who left is gone")
			}
			verifrt.Assert(!unknown, "leaving an unknown player is refused")
		}
		_ = dup
	case 3:
		joins := []JoinPlayer{{PlayerID: vhAnyID("id0", n), RedeemChips: verifrt.Int64("chips0"), Seat: verifrt.IntRange("seat0", seatLo, seatHi)}}
		if verifrt.Bool("two") {
			joins = append(joins, JoinPlayer{PlayerID: vhAnyID("id1", n), RedeemChips: verifrt.Int64("chips1"), Seat: verifrt.IntRange("seat1", seatLo, seatHi)})
		}
		leaves := []string{}
		if verifrt.Bool("leave") {
			leaves = append(leaves, vhAnyID("id2", n))
		}
		mixed := len(leaves) > 0
		anySeated := false
		for _, j := range joins {
			joined = append(joined, j.PlayerID)
			if te.table.FindPlayerIdx(j.PlayerID) >= 0 {
				anySeated = true
			}
		}
		fixedAndRandom := len(joins) == 2 && (joins[0].Seat == -1) != (joins[1].Seat == -1)
		_ = anySeated
		_, err = te.UpdateTablePlayers(joins, leaves)
		// known finding (DESIGN.md C03): a refused batch that has a leave part, or mixes fixed
		// and random seats, may leave its earlier part applied
		verifrt.KF("C03_BATCH_MIXED", (mixed || fixedAndRandom) && err != nil)
		if err == nil {
			for _, j := range joins {
				if j.Seat != -1 {
					idx := te.table.FindPlayerIdx(j.PlayerID)
					verifrt.Assert(idx >= 0 && te.table.State.PlayerStates[idx].Seat == j.Seat, "a fixed-seat join gets that seat")
				}
				// C01: every player of a batch brings exactly the amount named for *him*
				bidx := te.table.FindPlayerIdx(j.PlayerID)
				verifrt.Assert(bidx >= 0 && te.table.State.PlayerStates[bidx].Bankroll == j.RedeemChips, "a player joining in a batch brings exactly his own amount")
			}
		}
	}

	if err != nil {
		verifrt.Reach("refused")
		verifrt.Assert(verifrt.SameState(snapT, te.table), "an operation that reports an error leaves the table exactly as it was")
		verifrt.Assert(vhSameSM(te, M, snapSM), "an operation that reports an error leaves the seat manager exactly as it was")
	} else {
		verifrt.Reach("accepted")
		verifrt.Assert(vhInvT(te, M), "after a successful operation seat map, player list and seat manager agree, every player has one seat inside the table")
		for _, id := range joined {
			cnt := 0
			for _, p := range te.table.State.PlayerStates {
				if p.PlayerID == id {
					cnt++
				}
			}
			verifrt.Assert(cnt == 1, "a joined player appears exactly once")
		}
	}
	verifrt.Reach("end")
}

// VH_C03_Reuse: a seat vacated by a departure can be taken again.
func VH_C03_Reuse() {
	n := verifrt.Cfg("n")
	M := verifrt.Cfg("M")
	w := vhNewWorld(n, M, 0, false)
	te := w.te
	st := te.table.State
	verifrt.Assume(st.Status != TableStateStatus_TableGameOpened && st.Status != TableStateStatus_TableGamePlaying && st.Status != TableStateStatus_TableGameSettled)
	verifrt.Assume(vhInvT(te, M))
	k := verifrt.IntRange("leaver", 0, n-1)
	seat := st.PlayerStates[k].Seat
	err := te.PlayersLeave([]string{vhIDs[k]})
	verifrt.Assert(err == nil, "a seated player can leave")
	err = te.PlayerReserve(JoinPlayer{PlayerID: "x0", RedeemChips: 100, Seat: seat})
	verifrt.Assert(err == nil, "the vacated seat can be taken again")
	verifrt.Assert(vhInvT(te, M), "bookkeeping consistent after leave + re-seat")
	verifrt.Reach("end")
}

// VH_C03_Create: "create-with-players" is the first operation of every history: a table
// created with arbitrary auto-join players (repeated ids, colliding or out-of-range
// seats, more players than seats) is either refused or starts in a state satisfying Inv_T
// with every named player seated exactly once, fixed seats honoured.
func VH_C03_Create() {
	M := verifrt.Cfg("M")
	jn := verifrt.IntRange("create.jn", 0, M+1)
	seatLo, seatHi := -1, M-1
	if verifrt.Cfg("badseats") == 1 {
		seatLo, seatHi = -2, M+1
	}
	jps := []JoinPlayer{}
	for i := 0; i < M+1; i++ {
		if i < jn {
			jps = append(jps, JoinPlayer{PlayerID: vhNewIDs[verifrt.IntRangeI("create.pid", i, 0, len(vhNewIDs)-1)], RedeemChips: verifrt.Int64I("create.chips", i), Seat: verifrt.IntRangeI("create.seat", i, seatLo, seatHi)})
		}
	}
	te := NewTableEngine(NewTableEngineOptions(), WithGameBackend(&vhBackend{m: 2, tag: "bk0"})).(*tableEngine)
	rec := &vhRec{}
	rec.install(te)
	mode := CompetitionMode_CT
	if verifrt.Bool("create.mtt") {
		mode = CompetitionMode_MTT
	}
	t, err := te.CreateTable(TableSetting{TableID: "T1", Meta: TableMeta{CompetitionID: "C1", TableMaxSeatCount: M, TableMinPlayerCount: 2, Rule: CompetitionRule_Default, Mode: mode},
		Blind: TableBlindState{Level: verifrt.IntRange("create.level", -1, 1), SB: 10, BB: 20}, JoinPlayers: jps})
	if err != nil {
		verifrt.Reach("refused")
		verifrt.Assert(t == nil, "a refused creation returns no table")
		dup, clash, bad := false, false, false
		for i := 0; i < len(jps); i++ {
			if jps[i].Seat < -1 || jps[i].Seat >= M {
				bad = true
			}
			for j := 0; j < i; j++ {
				if jps[i].PlayerID == jps[j].PlayerID {
					dup = true
				}
				if jps[i].Seat >= 0 && jps[i].Seat == jps[j].Seat {
					clash = true
				}
			}
		}
		verifrt.Assert(len(jps) > M || dup || clash || bad, "a creation is refused only for too many players, a repeated id, a seat named twice or a seat outside the table")
		verifrt.Reach("end")
		return
	}
	verifrt.Reach("accepted")
	verifrt.Assert(t == te.table && vhInvT(te, M), "a created table starts with seat map, player list and seat manager in agreement")
	verifrt.Assert(len(te.table.State.PlayerStates) == len(jps), "exactly the named players are seated")
	for _, j := range jps {
		cnt, at := 0, -2
		var chips int64 = -1
		for _, p := range te.table.State.PlayerStates {
			if p.PlayerID == j.PlayerID {
				cnt++
				at = p.Seat
				chips = p.Bankroll
			}
		}
		verifrt.Assert(cnt == 1, "a player named at creation appears exactly once")
		verifrt.Assert(chips == j.RedeemChips, "a player named at creation brings exactly his own amount")
		verifrt.Assert(j.Seat == -1 || at == j.Seat, "a fixed seat named at creation is honoured")
	}
	verifrt.Reach("end")
}
