package pokertable

// C02 — a hand's seat numbers denote the same players from open to settlement.

import (
	"github.com/weedbox/pokerface"
	"github.com/weedbox/pokertable/internal/verifrt"
	"github.com/weedbox/pokertable/seat_manager"
)

// vhOpenedWorld: table and seat manager as openGame sees them right after a
// successful InitPositions / RotatePositions (invariant K of DESIGN.md):
// IsParticipated = seat-manager Active for every player, at least two dealt in,
// the big-blind seat holds a dealt-in player (default rule).
func vhOpenedWorld(n, M int) *vhWorld {
	w := vhNewWorld(n, M, 0, false)
	te := w.te
	verifrt.Assume(te.sm.IsInitPositions())
	cnt := 0
	for _, p := range te.table.State.PlayerStates {
		s := seat_manager.VHSeatOf(te.sm, p.Seat)
		p.IsParticipated = s.Occ && s.In && s.Chips && !s.Btw
		if p.IsParticipated {
			cnt++
		}
	}
	verifrt.Assume(cnt >= 2)
	if vhRule != CompetitionRule_ShortDeck {
		bb := seat_manager.VHSeatOf(te.sm, te.sm.CurrentBBSeatID())
		verifrt.Assume(bb.Occ && bb.In && bb.Chips && !bb.Btw)
	} else {
		d := seat_manager.VHSeatOf(te.sm, te.sm.CurrentDealerSeatID())
		verifrt.Assume(d.Occ && d.In && d.Chips && !d.Btw)
	}
	return w
}

func vhSeatParticipates(te *tableEngine, seat int) bool {
	idx := te.table.State.SeatMap[seat]
	return idx >= 0 && te.table.State.PlayerStates[idx].IsParticipated
}

// nearest dealt-in seat counter-clockwise strictly before s (s itself last)
func vhDealtInBefore(te *tableEngine, M, s int) int {
	for i := 1; i <= M; i++ {
		t := (s + M - i) % M
		if vhSeatParticipates(te, t) {
			return t
		}
	}
	return -1
}

// VH_C02_Order: the hand's player list built at open.
func VH_C02_Order() {
	n := verifrt.Cfg("n")
	M := verifrt.Cfg("M")
	if verifrt.Cfg("rule") == 1 {
		vhRule = CompetitionRule_ShortDeck
	}
	w := vhOpenedWorld(n, M)
	te := w.te
	st := te.table.State
	D, SB, BB := te.sm.CurrentDealerSeatID(), te.sm.CurrentSBSeatID(), te.sm.CurrentBBSeatID()

	gpi := te.calcGamePlayerIndexes(te.table.Meta.Rule, M, D, SB, BB, st.SeatMap, st.PlayerStates)

	// exactly the dealt-in players, each once, valid indexes
	want := 0
	for _, p := range st.PlayerStates {
		if p.IsParticipated {
			want++
		}
	}
	verifrt.Assert(len(gpi) == want, "the list has one entry per dealt-in player")
	for k := 0; k < len(gpi); k++ {
		verifrt.Assert(gpi[k] >= 0 && gpi[k] < n && st.PlayerStates[gpi[k]].IsParticipated, "every entry denotes a dealt-in table player")
		for j := 0; j < k; j++ {
			verifrt.Assert(gpi[j] != gpi[k], "no player appears twice")
		}
	}
	// expected first seat
	first := D
	if !vhSeatParticipates(te, D) {
		if vhRule == CompetitionRule_ShortDeck {
			first = -1
		} else if vhSeatParticipates(te, SB) {
			first = vhDealtInBefore(te, M, SB)
		} else {
			first = vhDealtInBefore(te, M, BB)
		}
	}
	if len(gpi) == want && want >= 2 {
		verifrt.Assert(st.PlayerStates[gpi[0]].Seat == first, "the list starts at the dealer seat, or with a dead dealer at the nearest dealt-in seat before the small blind (big blind if that is dead too)")
		// clockwise: walking the seats from the first entry meets the entries in list order
		k := 0
		for i := 0; i < M; i++ {
			seat := (st.PlayerStates[gpi[0]].Seat + i) % M
			if vhSeatParticipates(te, seat) {
				if k < len(gpi) {
					verifrt.Assert(st.PlayerStates[gpi[k]].Seat == seat, "entries follow each other in clockwise seat order")
				}
				k++
			}
		}
	}
	verifrt.Reach("end")
}

// VH_C02_Translate: id <-> hand index translation under Inv_H.
func VH_C02_Translate() {
	n := verifrt.Cfg("n")
	m := verifrt.Cfg("m")
	w := vhNewWorld(n, verifrt.Cfg("M"), m, true)
	t := w.te.table
	who := verifrt.IntRange("who", 0, n)
	id := "stranger"
	if who < n {
		id = vhIDs[who]
	}
	exp := -1
	for k, idx := range t.State.GamePlayerIndexes {
		if idx == who {
			exp = k
		}
	}
	verifrt.Assert(t.FindGamePlayerIdx(id) == exp, "FindGamePlayerIdx(id) is the hand entry of that player")
	verifrt.Assert(t.GamePlayerIndex(id) == exp, "GamePlayerIndex(id) is the hand entry of that player")
	// callers pass -1 or a valid hand index (Inv_H: the hand's player list and the engine's state have the same length)
	k := verifrt.IntRange("k", -1, m-1)
	got := t.FindPlayerIndexFromGamePlayerIndex(k)
	if k >= 0 && k < m {
		verifrt.Assert(got == t.State.GamePlayerIndexes[k], "hand entry k translates to its table player")
	} else if k < 0 {
		verifrt.Assert(got == UnsetValue, "no table player for an index below the hand")
	}
	verifrt.Reach("end")
}

// VH_C02_Stable: operations legal while a hand runs keep every hand entry on the same player.
func VH_C02_Stable() {
	n := verifrt.Cfg("n")
	m := verifrt.Cfg("m")
	w := vhNewWorld(n, verifrt.Cfg("M"), m, true)
	te := w.te
	st := te.table.State
	ids := make([]string, m)
	for k := 0; k < m; k++ {
		ids[k] = st.PlayerStates[st.GamePlayerIndexes[k]].PlayerID
	}
	op := verifrt.Cfg("op")
	who := vhIDs[verifrt.IntRange("who", 0, n-1)]
	switch op {
	case 0:
		te.PlayerReserve(JoinPlayer{PlayerID: "newcomer", RedeemChips: verifrt.Int64("amount"), Seat: verifrt.IntRange("seatArg", -1, w.M-1)})
	case 1:
		te.PlayerReserve(JoinPlayer{PlayerID: who, RedeemChips: verifrt.Int64("amount"), Seat: -1})
	case 2:
		te.PlayerJoin(who)
	case 3:
		te.PlayerRedeemChips(JoinPlayer{PlayerID: who, RedeemChips: verifrt.Int64("amount")})
	case 4:
		// a seated player who is not in the hand (busted, waiting, not yet joined) leaves
		// while the hand runs: the player list shrinks, the hand's entries must follow
		inHand := false
		for k := 0; k < m; k++ {
			if ids[k] == who {
				inHand = true
			}
		}
		verifrt.Assume(!inHand)
		// "while the hand runs" = one of the three hand statuses; after a PauseTable / CloseTable
		// in the middle of a hand no action is accepted any more and the hand is never settled
		verifrt.Assume(st.Status == TableStateStatus_TableGameOpened || st.Status == TableStateStatus_TableGamePlaying || st.Status == TableStateStatus_TableGameSettled)
		pre := make([]int64, m)
		for k := 0; k < m; k++ {
			pre[k] = st.PlayerStates[st.GamePlayerIndexes[k]].Bankroll
		}
		err := te.PlayersLeave([]string{who})
		verifrt.Assert(err == nil, "a seated player can leave")
		verifrt.Assert(len(te.table.State.PlayerStates) == n-1, "exactly the leaver is gone")
		for k := 0; k < m; k++ {
			idx := te.table.State.GamePlayerIndexes[k]
			verifrt.Assert(idx >= 0 && idx < n-1 && te.table.State.PlayerStates[idx].Bankroll == pre[k], "hand participants keep their bankrolls when a bystander leaves")
		}
	case 5:
		// a player who IS dealt in leaves while the hand runs (known finding
		// C02_LEAVE_DEALT_IN: the entry is dropped and every later entry shifts)
		inHand := false
		for k := 0; k < m; k++ {
			if ids[k] == who {
				inHand = true
			}
		}
		verifrt.Assume(inHand)
		verifrt.Assume(st.Status == TableStateStatus_TableGameOpened || st.Status == TableStateStatus_TableGamePlaying || st.Status == TableStateStatus_TableGameSettled)
		verifrt.KF("C02_LEAVE_DEALT_IN", true)
		err := te.PlayersLeave([]string{who})
		verifrt.Assert(err == nil, "a seated player can leave")
		st = te.table.State
		for k := 0; k < m; k++ {
			if ids[k] == who {
				continue
			}
			ok := k < len(st.GamePlayerIndexes)
			if ok {
				idx := st.GamePlayerIndexes[k]
				ok = idx >= 0 && idx < len(st.PlayerStates) && st.PlayerStates[idx].PlayerID == ids[k]
			}
			verifrt.Assert(ok, "entry k of the running hand still denotes the same player after another participant left")
		}
		verifrt.Reach("end")
		return
	}
	st = te.table.State
	verifrt.Assert(len(st.GamePlayerIndexes) == m, "the hand keeps its entries")
	for k := 0; k < m; k++ {
		idx := st.GamePlayerIndexes[k]
		verifrt.Assert(idx >= 0 && idx < len(st.PlayerStates) && st.PlayerStates[idx].PlayerID == ids[k], "entry k still denotes the same player")
	}
	verifrt.Reach("end")
}

// VH_C02_BackendCreate: the native backend creates the hand with exactly the player list it
// is given — one hand entry per listed player, in order, starting with that player's stack —
// or refuses; it never drops or reorders entries (the table's index list is built for the
// list it handed over).
func VH_C02_BackendCreate() {
	m := verifrt.Cfg("m")
	opts := pokerface.NewStardardGameOptions()
	opts.Deck = pokerface.NewStandardDeckCards()
	opts.Ante = 0
	opts.Blind = pokerface.BlindSetting{Dealer: 0, SB: 1, BB: 2}
	for i := 0; i < m; i++ {
		pos := []string{}
		if i == 0 {
			pos = append(pos, Position_Dealer)
		}
		if (m == 2 && i == 0) || (m > 2 && i == 1) {
			pos = append(pos, Position_SB)
		}
		if (m == 2 && i == 1) || (m > 2 && i == 2) {
			pos = append(pos, Position_BB)
		}
		opts.Players = append(opts.Players, &pokerface.PlayerSetting{Bankroll: int64(verifrt.IntRangeI("bankroll", i, 0, 3)) * 10, Positions: pos})
	}
	listed := make([]*pokerface.PlayerSetting, m)
	copy(listed, opts.Players)
	gs, err := NewNativeGameBackend().CreateGame(opts)
	if err == nil {
		verifrt.Reach("created")
		verifrt.Assert(gs != nil && len(gs.Players) == m, "one hand entry per listed player")
		for i := 0; i < m; i++ {
			verifrt.Assert(gs.Players[i].Idx == i && gs.Players[i].Bankroll == listed[i].Bankroll, "entry i is the i-th listed player and starts with that player's stack")
		}
	} else {
		verifrt.Reach("refused")
		verifrt.Assert(gs == nil, "a refused creation returns no hand")
	}
	verifrt.Reach("end")
}
