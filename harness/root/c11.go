package pokertable

// C11 — a hand advances exactly when everyone asked has answered.

import (
	"github.com/weedbox/pokerface"
	"github.com/weedbox/pokertable/internal/verifrt"
	"github.com/weedbox/syncsaga"
)

func vhNewGame(m int, bk *vhBackend) (*game, *vhGameRec) {
	rec := &vhGameRec{}
	g := NewGame(bk, &pokerface.GameOptions{})
	g.rg.ModelSetStepped(true)
	g.OnGameStateUpdated(func(gs *pokerface.GameState) { rec.updated++ })
	g.OnGameErrorUpdated(func(gs *pokerface.GameState, err error) { rec.errors++; rec.lastErr = err })
	g.OnAntesReceived(func(gs *pokerface.GameState) { rec.antes++ })
	g.OnBlindsReceived(func(gs *pokerface.GameState) { rec.blinds++ })
	g.OnGameRoundClosed(func(gs *pokerface.GameState) { rec.roundClosed++ })
	return g, rec
}

type vhGameRec struct {
	updated, errors, antes, blinds, roundClosed int
	lastErr                                    error
}

func vhCountCalls(bk *vhBackend, kind string) int {
	c := 0
	for _, x := range bk.calls {
		if x.kind == kind {
			c++
		}
	}
	return c
}

// vhRequestState: a hand state at one of the three collection points with m
// players, symbolic positions and blind structure, nobody allowed anything yet.
func vhRequestState(m int, which int) *pokerface.GameState {
	gs := vhArbitraryGS("rq", m)
	gs.Status.CurrentEvent = []string{"ReadyRequested", "AnteRequested", "BlindsRequested"}[which]
	for _, p := range gs.Players {
		p.AllowedActions = []string{}
	}
	return gs
}

// VH_C11_Collect: who is asked at a collection point and when the hand moves on.
func VH_C11_Collect() {
	m := verifrt.Cfg("m")
	which := verifrt.Cfg("point") // 0 ready, 1 ante, 2 blinds
	bk := &vhBackend{m: m, tag: "bk0", faults: false}
	// the state the hand engine hands back when the collection point completes already carries
	// permissions of its own (here: pay and ready for everybody)
	bk.fix = func(next *pokerface.GameState) {
		for _, p := range next.Players {
			p.AllowedActions = []string{Action_Pay, Action_Ready}
		}
	}
	g, rec := vhNewGame(m, bk)
	gs := vhRequestState(m, which)
	g.gs = gs
	action := Action_Ready
	groupCall := "readyforall"
	if which == 1 {
		action, groupCall = Action_Pay, "payante"
	} else if which == 2 {
		action, groupCall = Action_Pay, "payblinds"
	}
	// expected set of asked players
	asked := make([]bool, m)
	anyAsked := false
	for i := 0; i < m; i++ {
		switch which {
		case 0:
			asked[i] = true
		case 1:
			asked[i] = gs.Meta.Ante != 0
		case 2:
			asked[i] = (gs.Meta.Blind.BB > 0 && gs.HasPosition(i, Position_BB)) ||
				(gs.Meta.Blind.SB > 0 && gs.HasPosition(i, Position_SB)) ||
				(gs.Meta.Blind.Dealer > 0 && gs.HasPosition(i, Position_Dealer))
		}
		if asked[i] {
			anyAsked = true
		}
	}

	g.handleGameState(gs)

	verifrt.Assert(rec.updated == 1, "the state is published once")
	states := g.rg.GetParticipantStates()
	skipped := which == 1 && gs.Meta.Ante == 0
	for i := 0; i < m; i++ {
		_, in := states[int64(i)]
		if skipped {
			verifrt.Assert(!in && !gs.HasAction(i, action), "no ante: nobody is asked")
		} else {
			verifrt.Assert(in == asked[i], "the hand waits for exactly the players it asks")
			verifrt.Assert(gs.HasAction(i, action) == asked[i], "exactly the asked players are allowed to respond")
		}
	}
	if !skipped {
		verifrt.Assert(g.rg.ModelStarted() && g.rg.ModelTimerArmed() && g.rg.ModelArmedWith() == 17, "collection point armed with the response timeout")
	}
	verifrt.Assert(len(bk.calls) == 0, "nothing moves on before anybody answered")

	if !skipped {
		// responses: m steps, each from an arbitrary player (repeats and strangers included) or nobody
		responded := make([]bool, m)
		for s := 0; s < m; s++ {
			who := verifrt.IntRangeI("who", s, -1, m) // -1 nobody, m = index out of the hand
			if len(bk.calls) > 0 {
				who = -1 // the hand has moved on: later responses belong to the next state
			}
			// a stray pass (not a response) from anybody — the current player included — while the
			// collection is pending: the hand engine would silently ignore it and hand the same
			// request state back, which re-arms the collection and discards the answers already
			// given, so the wrapper has to refuse it (the other action kinds are refused by the
			// hand engine itself: C10 ActionEngine)
			if verifrt.BoolI("stray", s) && len(bk.calls) == 0 {
				_, serr := g.Pass(verifrt.IntRangeI("straywho", s, 0, m))
				verifrt.Assert(serr != nil && len(bk.calls) == 0, "a pass is not a response: it is refused at a collection point and does not reach the hand engine")
			}
			if who >= 0 {
				var err error
				if which == 0 {
					_, err = g.Ready(who)
				} else {
					_, err = g.Pay(who, verifrt.Int64I("paychips", s))
				}
				if who < m && asked[who] && vhCountCalls(bk, groupCall) == 0 {
					verifrt.Assert(err == nil, "an asked player's response is accepted")
					responded[who] = true
				}
				if who >= m || !asked[who] {
					verifrt.Assert(err != nil, "a response from a player who was not asked is refused")
				}
				// zero-latency processing of the queued signal
				for g.rg.ModelQueueLen() > 0 {
					g.rg.ModelProcessOne()
					g.rg.ModelRunCompletion()
				}
			}
			all := true
			for i := 0; i < m; i++ {
				if asked[i] && !responded[i] {
					all = false
				}
			}
			if all && anyAsked {
				verifrt.Assert(vhCountCalls(bk, groupCall) == 1 && len(bk.calls) == 1, "the hand moves on exactly once when everyone asked has answered")
			} else {
				verifrt.Assert(len(bk.calls) == 0, "the hand does not move on while a response is withheld")
			}
		}
		// the response timeout
		if g.rg.ModelTimerArmed() {
			g.rg.ModelFireTimeout()
			for i := 0; i < m+1; i++ {
				if g.rg.ModelQueueLen() > 0 {
					g.rg.ModelProcessOne()
					g.rg.ModelRunCompletion()
				}
			}
		}
		if anyAsked {
			verifrt.Assert(vhCountCalls(bk, groupCall) == 1 && len(bk.calls) == 1, "after the timeout the hand has moved on exactly once")
			if which == 1 {
				verifrt.Assert(rec.antes == 1, "antes-received event emitted once")
			}
			if which == 2 {
				verifrt.Assert(rec.blinds == 1, "blinds-received event emitted once")
			}
			verifrt.Assert(rec.errors == 0, "no error with a working backend")
			// the completion callback tidies up the permissions of the collection point it belongs
			// to; the NEXT state (already current, possibly already being handled by the updater:
			// its own collection point may have granted "pay" / "ready" on it) is none of its business
			cur := g.gs
			verifrt.Assert(cur != nil && bk.last != nil && len(cur.Players) == len(bk.last.Players), "the hand is now at the state the backend produced")
			for i := range cur.Players {
				verifrt.Assert(vhHasString(cur.Players[i].AllowedActions, Action_Pay) && vhHasString(cur.Players[i].AllowedActions, Action_Ready),
					"moving on leaves the pay / ready permissions of the next state as the hand engine produced them")
			}
		}
	}
	verifrt.Reach("end")
}

// VH_C11_SelfAdvance: round-closed states trigger Next once; a closed hand
// stops the updater once.
func VH_C11_SelfAdvance() {
	m := verifrt.Cfg("m")
	bk := &vhBackend{m: m, tag: "bk0", faults: true}
	g, rec := vhNewGame(m, bk)
	gs := vhArbitraryGS("rq", m)
	g.gs = gs
	ev := verifrt.IntRange("which", 0, 2)
	gs.Status.CurrentEvent = []string{"RoundClosed", "GameClosed", "RoundStarted"}[ev]
	q := len(g.incomingStates)
	g.handleGameState(gs)
	switch ev {
	case 0:
		verifrt.Assert(rec.roundClosed == 1, "round-closed handler runs once")
		verifrt.Assert(len(bk.calls) == 1 && bk.calls[0].kind == "next" && bk.calls[0].gs == gs, "the next round is requested exactly once, from the closed state")
		if verifrt.BoolI("bk.fail", 0) {
			verifrt.Assert(rec.errors == 1 && rec.lastErr == vhErrBackend && len(g.incomingStates) == q, "a failing Next is reported through the error callback and queues nothing")
		} else {
			verifrt.Assert(rec.errors == 0 && len(g.incomingStates) == q+1, "the next round's state is queued")
		}
	case 1:
		verifrt.Assert(g.isClosed && len(bk.calls) == 0, "closed hand: updater stopped, no backend call")
		g.handleGameState(gs)
		verifrt.Assert(g.isClosed, "closing twice is harmless")
	case 2:
		verifrt.Assert(len(bk.calls) == 0, "betting states need no engine-side step")
	}
	verifrt.Assert(rec.updated >= 1, "state published")
	_ = syncsaga.NewReadyGroup
	verifrt.Reach("end")
}

