package open_game_manager

// C09 — the open-game gate fires once, and only when everyone is ready or timed out.
// Schedules are symbolic: every step of the sequence is chosen by the solver among
// set-up / ready (known, unknown, repeated) / process-one-queued-signal / timeout.
// The ReadyGroup underneath is the sequential model (stepped mode); completion
// callbacks run with zero latency after the step that makes them due (DESIGN.md C09).

import "github.com/weedbox/pokertable/internal/verifrt"

var vhPart = []string{"a", "b", "c", "d", "e", "f", "g"}
var vhPow5 = []int{1, 5, 25, 125, 625, 3125, 15625}

type vhGate struct {
	m        *openGameManager
	P        int
	fired    int
	firedGen int // fired count of the current generation
	last     OpenGameState
	lastAll  bool
	// ghost state of the current set-up
	gen       int
	gc        int
	member    []bool
	processed []bool
	timedOut  bool
	queue     []int // signals queued in the ready group, oldest first
	reenter   int
	quiet     bool // ghost checks off (the rebuild harness drives the gate itself after the prefix)
}

func vhNewGate(P int) *vhGate {
	g := &vhGate{P: P, member: make([]bool, P), processed: make([]bool, P)}
	g.m = NewOpenGameManager(OpenGameOption{Timeout: 2, OnOpenGameReady: func(s OpenGameState) {
		g.fired++
		g.firedGen++
		g.last = s
		all := true
		for _, p := range s.Participants {
			if !p.IsReady {
				all = false
			}
		}
		g.lastAll = all
		if g.quiet {
			return
		}
		g.checkFire()
		// re-entrancy: the consumer of the callback may set up the next hand from inside it
		// (configuration re=1); the new set-up must then work like any other
		if verifrt.Cfg("re") == 1 && g.reenter < 1 && verifrt.BoolI("re.now", g.reenter) {
			g.reenter++
			g.setup(5)
		}
	}}).(*openGameManager)
	g.m.rg.ModelSetStepped(true)
	return g
}

// checkFire: the property's clauses at the moment the callback fires.
func (g *vhGate) checkFire() {
	verifrt.Assert(g.gen > 0, "callback fires only after a set-up")
	verifrt.Assert(g.firedGen == 1, "callback fires at most once per set-up")
	verifrt.Assert(g.last.GameCount == g.gc, "callback reports that set-up's game count")
	ok := true
	n := 0
	for j := 0; j < g.P; j++ {
		if g.member[j] {
			n++
			if !g.processed[j] && !g.timedOut {
				ok = false
			}
			p, exist := g.last.Participants[vhPart[j]]
			verifrt.Assert(exist && p.IsReady, "callback reports every participant of that set-up as ready")
		}
	}
	verifrt.Assert(len(g.last.Participants) == n, "callback reports exactly that set-up's participants")
	verifrt.Assert(ok, "callback never fires before every participant has signalled ready unless the timeout elapsed")
}

func (g *vhGate) setup(step int) { g.setupWith(step, false) }

func (g *vhGate) setupWith(step int, everybody bool) {
	gc := verifrt.IntRangeI("gc", step, 1, 3)
	parts := map[string]int{}
	for j := 0; j < g.P; j++ {
		in := everybody || verifrt.BoolI("member"+vhPart[step], j)
		g.member[j] = in
		g.processed[j] = false
		if in {
			parts[vhPart[j]] = j
		}
	}
	g.gen++
	g.gc = gc
	g.firedGen = 0
	g.timedOut = false
	g.queue = g.queue[:0]
	g.m.Setup(gc, parts)
	// an empty participant set completes only by timeout (nothing is ever processed)
}

func (g *vhGate) processOne() {
	if len(g.queue) == 0 {
		verifrt.Assert(!g.m.rg.ModelProcessOne(), "ghost queue and ready group agree")
		return
	}
	j := g.queue[0]
	g.queue = g.queue[1:]
	g.processed[j] = true
	verifrt.Assert(g.m.rg.ModelProcessOne(), "ghost queue and ready group agree")
	g.m.rg.ModelRunCompletion()
}

func (g *vhGate) step(step int) {
	// the kind of each step is a configuration digit (schedule = case split, one job per
	// schedule); who signals, which participants a set-up names and the game count stay symbolic
	ev := (verifrt.Cfg("sched") / vhPow5[step]) % 5
	switch ev {
	case 0:
		g.setup(step)
	case 1: // ready from one of the names (member of the current set-up or not)
		j := verifrt.IntRangeI("who", step, 0, g.P-1)
		known := g.gen > 0 && g.member[j]
		snap := verifrt.Snapshot(g.m.state)
		before := g.fired
		err := g.m.Ready(vhPart[j])
		if known {
			verifrt.Assert(err == nil, "known participant's signal is accepted")
			if g.m.rg.ModelStarted() {
				g.queue = append(g.queue, j)
			}
		} else {
			verifrt.Assert(err == ErrParticipantNotFound, "unknown participant is rejected with an error")
			verifrt.Assert(verifrt.SameState(snap, g.m.state), "rejected signal changes nothing")
		}
		verifrt.Assert(g.fired == before, "a signal alone never fires the callback before it is processed")
	case 2: // a name that is never a participant
		snap := verifrt.Snapshot(g.m.state)
		err := g.m.Ready("stranger")
		verifrt.Assert(err == ErrParticipantNotFound && verifrt.SameState(snap, g.m.state), "stranger's signal is rejected and changes nothing")
	case 3:
		g.processOne()
	case 4: // timeout expires (if armed): remaining participants are auto-readied
		if g.m.rg.ModelTimerArmed() {
			g.timedOut = true
			firedBefore := g.fired
			anyMember := false
			for j := 0; j < g.P; j++ {
				if g.member[j] {
					anyMember = true
				}
			}
			g.m.rg.ModelFireTimeout()
			// at most one queued signal per participant plus the auto-ready ones
			for i := 0; i < 2*g.P+2; i++ {
				if g.m.rg.ModelQueueLen() > 0 {
					g.m.rg.ModelProcessOne()
					g.m.rg.ModelRunCompletion()
				}
			}
			verifrt.Assert(g.m.rg.ModelQueueLen() == 0, "harness bound on queued signals suffices")
			g.queue = g.queue[:0]
			// (an empty set-up never completes: nobody is there to be auto-readied; the
			// engine's callback ignores set-ups with fewer than two participants anyway)
			if g.gen > 0 && anyMember {
				verifrt.Assert(g.fired == firedBefore+1, "after the timeout the callback has fired for the current set-up")
			}
		}
	}
}

// VH_C09_Gate: every schedule of k steps over up to P participants.
func VH_C09_Gate() {
	k := verifrt.Cfg("k")
	g := vhNewGate(verifrt.Cfg("P"))
	for s := 0; s < k; s++ {
		g.step(s)
	}
	// liveness at quiescence: everything processed and everyone signalled => fired
	for i := 0; i < k; i++ {
		if g.m.rg.ModelQueueLen() > 0 {
			g.processOne()
		}
	}
	verifrt.Assert(g.m.rg.ModelQueueLen() == 0, "harness bound on queued signals suffices (end)")
	if g.gen > 0 {
		all := true
		any := false
		for j := 0; j < g.P; j++ {
			if g.member[j] {
				any = true
				if !g.processed[j] {
					all = false
				}
			}
		}
		if any && all {
			verifrt.Assert(g.firedGen == 1, "once every participant's signal is processed the callback has fired")
		}
		if !g.timedOut && !(any && all) {
			verifrt.Assert(g.firedGen == 0, "withheld signal and no timeout: the callback has not fired")
		}
	}
	verifrt.Reach("end")
}

// VH_C09_Reenter: the consumer sets up the next hand from inside the ready
// callback of the previous one; the new set-up must behave like any other (it
// completes when its participants signalled, or at the timeout, exactly once).
func VH_C09_Reenter() {
	P := verifrt.Cfg("P")
	g := &vhGate{P: P, member: make([]bool, P), processed: make([]bool, P)}
	second := false
	g.m = NewOpenGameManager(OpenGameOption{Timeout: 2, OnOpenGameReady: func(s OpenGameState) {
		g.fired++
		g.firedGen++
		g.last = s
		g.checkFire()
		if !second {
			second = true
			g.setup(1) // next hand set up from inside the callback
		}
	}}).(*openGameManager)
	g.m.rg.ModelSetStepped(true)
	// the first hand names every participant (so that its callback fires at one definite
	// point); the set-up made inside the callback names an arbitrary subset
	g.setupWith(0, true)
	// first hand: everybody signals, signals are processed
	for j := 0; j < P; j++ {
		if g.member[j] {
			verifrt.Assert(g.m.Ready(vhPart[j]) == nil, "participant's signal accepted")
			g.queue = append(g.queue, j)
		}
	}
	for i := 0; i < P; i++ {
		g.processOne()
	}
	verifrt.Assert(g.fired == 1 && second && g.gen == 2, "first hand's callback fired and set up the second hand")
	any1 := false
	for j := 0; j < P; j++ {
		if g.member[j] {
			any1 = true
		}
	}
	// second hand: an arbitrary subset signals, then the timeout
	for j := 0; j < P; j++ {
		if g.member[j] && verifrt.BoolI("signals2", j) {
			verifrt.Assert(g.m.Ready(vhPart[j]) == nil, "participant's signal accepted (second hand)")
			if g.m.rg.ModelStarted() {
				g.queue = append(g.queue, j)
			}
		}
	}
	for i := 0; i < P; i++ {
		g.processOne()
	}
	if any1 {
		verifrt.Assert(g.m.rg.ModelStarted() || g.fired == 2, "the set-up made inside the callback is armed")
		if g.fired < 2 {
			verifrt.Assert(g.m.rg.ModelTimerArmed(), "an unfinished set-up has its timeout armed")
			g.timedOut = true
			g.m.rg.ModelFireTimeout()
			for i := 0; i < 2*P+2; i++ {
				if g.m.rg.ModelQueueLen() > 0 {
					g.m.rg.ModelProcessOne()
					g.m.rg.ModelRunCompletion()
				}
			}
		}
		verifrt.Assert(g.fired == 2, "the hand set up from inside the callback fires exactly once")
	}
	verifrt.Reach("end")
}
