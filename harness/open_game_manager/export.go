package open_game_manager

// Harness-only controls of the gate's sequential ReadyGroup model.

// ModelStepped switches the gate's ready group to stepped mode (signals are queued).
func (m *openGameManager) ModelStepped(s bool) { m.rg.ModelSetStepped(s) }

// ModelSettle processes every queued signal, lets the timeout elapse if it is
// still armed, processes the auto-ready signals and finally runs the completion
// callback once if it is due.
func (m *openGameManager) ModelSettle(maxSignals int) bool {
	for i := 0; i < maxSignals; i++ {
		if m.rg.ModelQueueLen() > 0 {
			m.rg.ModelProcessOne()
		}
	}
	m.rg.ModelFireTimeout()
	for i := 0; i < maxSignals; i++ {
		if m.rg.ModelQueueLen() > 0 {
			m.rg.ModelProcessOne()
		}
	}
	return m.rg.ModelRunCompletion()
}
