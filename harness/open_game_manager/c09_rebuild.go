package open_game_manager

// C09, last clause — "a gate rebuilt from a saved state behaves like the original".
// The original gate runs an arbitrary prefix schedule, its state is saved (deep copy,
// as a serialised snapshot would be) and a second gate is rebuilt from it with
// NewOpenGameManagerFromState.  Both then receive the same suffix schedule with the
// same symbolic inputs; after every step they must agree on accepted / rejected
// signals, on GetState() and on callback invocations (count and reported state).

import "github.com/weedbox/pokertable/internal/verifrt"

type vhSide struct {
	m     *openGameManager
	fired int
	last  OpenGameState
}

func vhCopyState(s OpenGameState) OpenGameState {
	c := OpenGameState{Timeout: s.Timeout, GameCount: s.GameCount, Participants: map[string]*OpenGameParticipant{}}
	for id, p := range s.Participants {
		c.Participants[id] = &OpenGameParticipant{ID: p.ID, Index: p.Index, IsReady: p.IsReady}
	}
	return c
}

func vhSameGateState(a, b OpenGameState, P int) bool {
	if a.Timeout != b.Timeout || a.GameCount != b.GameCount || len(a.Participants) != len(b.Participants) {
		return false
	}
	for j := 0; j < P; j++ {
		pa, ea := a.Participants[vhPart[j]]
		pb, eb := b.Participants[vhPart[j]]
		if ea != eb {
			return false
		}
		if ea && (pa.ID != pb.ID || pa.Index != pb.Index || pa.IsReady != pb.IsReady) {
			return false
		}
	}
	return true
}

func (x *vhSide) drain(P int) {
	for i := 0; i < 2*P+2; i++ {
		if x.m.rg.ModelQueueLen() > 0 {
			x.m.rg.ModelProcessOne()
			x.m.rg.ModelRunCompletion()
		}
	}
}

// VH_C09_Rebuild: prefix of k1 steps on the original, save, rebuild, k2 common steps.
func VH_C09_Rebuild() {
	P := verifrt.Cfg("P")
	k1 := verifrt.Cfg("k1")
	k2 := verifrt.Cfg("k2")
	g := vhNewGate(P)
	for s := 0; s < k1; s++ {
		g.step(s)
	}
	// the snapshot is taken at a quiescent point: queued signals processed, due callbacks run
	for i := 0; i < k1; i++ {
		if g.m.rg.ModelQueueLen() > 0 {
			g.processOne()
		}
	}
	verifrt.Assert(g.m.rg.ModelQueueLen() == 0, "harness bound on queued signals suffices (prefix)")
	saved := vhCopyState(g.m.GetState())

	// known finding C09_REBUILD_ALLREADY: the saved state does not say whether the gate
	// has fired; a state in which every participant is marked ready is rebuilt into a
	// gate that has "not completed yet" although the original has
	allReady := len(saved.Participants) > 0
	for _, p := range saved.Participants {
		if !p.IsReady {
			allReady = false
		}
	}
	g.quiet = true
	a := &vhSide{m: g.m}
	firedA0 := g.fired
	b := &vhSide{}
	b.m = NewOpenGameManagerFromState(saved, OpenGameOption{Timeout: 2, OnOpenGameReady: func(s OpenGameState) {
		b.fired++
		b.last = vhCopyState(s)
	}}).(*openGameManager)
	b.m.rg.ModelSetStepped(true)
	verifrt.Assert(b.fired == 0, "rebuilding does not fire the callback by itself")
	verifrt.Assert(vhSameGateState(a.m.GetState(), b.m.GetState(), P), "rebuilt gate reports the saved state")
	// goroutines the rebuild may have started run before anything else happens; the two clauses
	// above and this one hold in every saved state — the known finding is about what a *later
	// signal* does to a gate rebuilt from an all-ready state, so its region starts only here
	verifrt.RunPending()
	verifrt.Assert(b.fired == 0, "rebuilding does not fire the callback by itself (goroutines started by the rebuild included)")
	verifrt.KF("C09_REBUILD_ALLREADY", allReady)

	for s := 0; s < k2; s++ {
		fa, fb := g.fired, b.fired
		ev := (verifrt.Cfg("sched") / vhPow5[k1+s]) % 5
		switch ev {
		case 0:
			gc := verifrt.IntRangeI("gc2", s, 1, 3)
			pa := map[string]int{}
			pb := map[string]int{}
			for j := 0; j < P; j++ {
				if verifrt.BoolI("member2"+vhPart[s], j) {
					pa[vhPart[j]] = j
					pb[vhPart[j]] = j
				}
			}
			a.m.Setup(gc, pa)
			b.m.Setup(gc, pb)
		case 1:
			j := verifrt.IntRangeI("who2", s, 0, P-1)
			ea := a.m.Ready(vhPart[j])
			eb := b.m.Ready(vhPart[j])
			verifrt.Assert(ea == eb, "rebuilt gate accepts / rejects a signal like the original")
		case 2:
			ea := a.m.Ready("stranger")
			eb := b.m.Ready("stranger")
			verifrt.Assert(ea == eb && eb == ErrParticipantNotFound, "rebuilt gate rejects a stranger like the original")
		case 3:
			if a.m.rg.ModelProcessOne() {
				a.m.rg.ModelRunCompletion()
			}
			if b.m.rg.ModelProcessOne() {
				b.m.rg.ModelRunCompletion()
			}
		case 4:
			// the timeout elapses on both (the rebuilt gate's timer was restarted at the
			// rebuild; an expiry on a gate whose timer is not armed is no event)
			if a.m.rg.ModelFireTimeout() {
				a.drain(P)
			}
			if b.m.rg.ModelFireTimeout() {
				b.drain(P)
			}
		}
		verifrt.Assert(g.fired-fa == b.fired-fb, "rebuilt gate fires its callback exactly when the original does")
		if b.fired > fb && g.fired > fa {
			verifrt.Assert(vhSameGateState(g.last, b.last, P), "rebuilt gate's callback reports what the original's reports")
		}
		verifrt.Assert(vhSameGateState(a.m.GetState(), b.m.GetState(), P), "rebuilt gate's state follows the original's")
	}
	// quiescence
	a.drain(P)
	b.drain(P)
	verifrt.Assert(g.fired-firedA0 == b.fired, "rebuilt gate has fired as often as the original since the rebuild")
	verifrt.Assert(vhSameGateState(a.m.GetState(), b.m.GetState(), P), "rebuilt gate's final state equals the original's")
	verifrt.Reach("end")
}
