package main

// Intrinsics: the harness runtime (verifrt), and the environment stubs of
// DESIGN.md section 2.5.  Every stub that fires is counted in stubsUsed and
// reported in the evidence.

import (
	"fmt"
	"go/types"
	"strings"

	"golang.org/x/tools/go/ssa"
)

const verifrtSuffix = "/internal/verifrt."

func (m *Machine) argStr(v Value, what string) string {
	s, ok := m.concreteString(v)
	if !ok {
		if t, isT := v.(*Term); isT && t.cases != nil {
			// the value may be determined under the current path condition
			for _, c := range t.cases {
				if m.gNow != nil && And(m.gNow, Not(c.c)).IsFalse() && int(c.k) < len(m.strs) {
					return m.strs[c.k]
				}
			}
			for _, c := range t.cases {
				if m.gNow != nil && int(c.k) < len(m.strs) && m.feasible(And(m.gNow, Not(c.c))) == Unsat {
					return m.strs[c.k]
				}
			}
			panic(notEncoded("%s: name argument has %d possible values (make the index concrete)", what, len(t.cases)))
		}
		panic(notEncoded("%s: string argument must be a literal", what))
	}
	return s
}

func (m *Machine) argInt(v Value, what string) int64 {
	t, ok := v.(*Term)
	if !ok || !t.IsConst() {
		panic(notEncoded("%s: integer argument must be concrete", what))
	}
	return t.Int()
}

func (m *Machine) input(name, kind string, s Sort) *Term {
	if i, ok := m.inputIdx[name]; ok {
		return m.inputs[i].T
	}
	var t *Term
	if v, ok := m.pinned[name]; ok {
		if s.Bool {
			t = Bool(v != 0)
		} else {
			t = Const(s.W, v)
		}
	} else {
		t = Var("in!"+sanitize(name), s)
	}
	m.inputIdx[name] = len(m.inputs)
	m.inputs = append(m.inputs, InputVar{Name: name, Kind: kind, T: t})
	return t
}

func sanitize(s string) string {
	var sb strings.Builder
	for _, c := range s {
		switch {
		case c >= 'a' && c <= 'z', c >= 'A' && c <= 'Z', c >= '0' && c <= '9', c == '_', c == '.':
			sb.WriteRune(c)
		case c == '[':
			sb.WriteString("_")
		case c == ']':
		default:
			sb.WriteString("_")
		}
	}
	return sb.String()
}

func unwrapIface(v Value) (Value, types.Type) {
	iv, ok := v.(*IfaceV)
	if !ok {
		return v, nil
	}
	if len(iv.Alts) == 0 {
		return nil, nil
	}
	if len(iv.Alts) != 1 || !iv.Alts[0].G.IsTrue() {
		panic(notEncoded("intrinsic argument: interface with several dynamic types"))
	}
	return iv.Alts[0].V, iv.Alts[0].T
}

func errNil() Value { return &IfaceV{} }

func (m *Machine) intrinsic(fn *ssa.Function, bind []Value, args []Value, g *Term, site ssa.Instruction) (Value, bool) {
	name := fn.String()
	if i := strings.Index(name, verifrtSuffix); i >= 0 {
		short := name[i+len(verifrtSuffix):]
		if short == "init" || strings.HasPrefix(short, "init#") {
			return nil, true
		}
		return m.verifrt(short, args, g, site), true
	}
	if fn.Pkg != nil {
		switch fn.Pkg.Pkg.Path() {
		case "fmt":
			return m.fmtStub(fn, args), true
		case "log":
			m.stubsUsed["log.* = no-op"]++
			return nil, true
		}
	}
	if h, ok := intrinsicTable[name]; ok {
		return h(m, args, g, site), true
	}
	return nil, false
}

type intrinsicFn func(m *Machine, args []Value, g *Term, site ssa.Instruction) Value

var intrinsicTable map[string]intrinsicFn

func init() {
	intrinsicTable = map[string]intrinsicFn{
		"errors.New": func(m *Machine, args []Value, g *Term, site ssa.Instruction) Value {
			named := m.errorStringType()
			o := m.newObject(&StructV{F: []Value{args[0]}}, named.Elem(), "error")
			return &IfaceV{Alts: []IfaceAlt{{TS.True, named, ptrTo(o)}}}
		},
		"errors.Is": func(m *Machine, args []Value, g *Term, site ssa.Instruction) Value {
			m.stubsUsed["errors.Is = identity comparison"]++
			return valueEq(args[0], args[1])
		},
		"(*errors.errorString).Error": func(m *Machine, args []Value, g *Term, site ssa.Instruction) Value {
			return m.load(args[0].(*PtrV), g, site).(*StructV).F[0]
		},
		"(*sync.Mutex).Lock":      lockOp(0, true, false),
		"(*sync.Mutex).Unlock":    lockOp(0, false, false),
		"(*sync.RWMutex).Lock":    lockOp(0, true, false),
		"(*sync.RWMutex).Unlock":  lockOp(0, false, false),
		"(*sync.RWMutex).RLock":   lockOp(0, true, true),
		"(*sync.RWMutex).RUnlock": lockOp(0, false, true),
		"(*sync.WaitGroup).Add":   nop("sync.WaitGroup = no-op"),
		"(*sync.WaitGroup).Done":  nop("sync.WaitGroup = no-op"),
		"(*sync.WaitGroup).Wait":  nop("sync.WaitGroup = no-op"),
		"time.Sleep": func(m *Machine, args []Value, g *Term, site ssa.Instruction) Value {
			// no time passes symbolically; environment actions registered with
			// verifrt.DuringSleep run at the designated sleep (something else may happen while
			// the code under test sleeps)
			m.stubsUsed["time.Sleep = no-op (plus DuringSleep environment actions)"]++
			m.sleepN++
			for _, h := range m.sleepHooks {
				if h.k == m.sleepN {
					m.callFuncV(h.f, nil, g, site)
				}
			}
			return nil
		},
		"github.com/thoas/go-funk.Contains": funkContains,
		"github.com/thoas/go-funk.Filter":   funkFilter,
		"sort.Slice":                        sortSlice,
		"sort.SliceStable":                  sortSlice, // adjacent swaps on strict less only: the network is stable
		"math/rand.NewSource": func(m *Machine, args []Value, g *Term, site ssa.Instruction) Value {
			return &IfaceV{}
		},
		"math/rand.New": func(m *Machine, args []Value, g *Term, site ssa.Instruction) Value {
			o := m.newObject(&OpaqueV{"rand"}, nil, "rand")
			return ptrTo(o)
		},
		"math/rand.Seed":            nop("rand.Seed = no-op"),
		"(*math/rand.Rand).Shuffle": randShuffle,
		"math/rand.Shuffle":         func(m *Machine, a []Value, g *Term, s ssa.Instruction) Value { return randShuffle(m, append([]Value{nil}, a...), g, s) },
		"math/rand.Intn":            randIntn,
		"math/rand.Int63n":          randIntn,
		"math/rand.Float64": func(m *Machine, args []Value, g *Term, site ssa.Instruction) Value {
			m.stubsUsed["rand.Float64 = arbitrary float"]++
			return m.fresh("randf", BV(64))
		},
		"encoding/json.Marshal":   jsonMarshal,
		"encoding/json.Unmarshal": jsonUnmarshal,
		"(github.com/google/uuid.UUID).String": func(m *Machine, args []Value, g *Term, site ssa.Instruction) Value {
			m.stubsUsed["uuid = fresh opaque id"]++
			return m.fresh("uuid", BV(strW))
		},
		"github.com/google/uuid.New": func(m *Machine, args []Value, g *Term, site ssa.Instruction) Value {
			m.stubsUsed["uuid = fresh opaque id"]++
			if v, ok := site.(ssa.Value); ok {
				return m.zero(v.Type())
			}
			panic(notEncoded("uuid.New"))
		},
		"github.com/google/uuid.NewString": func(m *Machine, args []Value, g *Term, site ssa.Instruction) Value {
			m.stubsUsed["uuid = fresh opaque id"]++
			return m.fresh("uuid", BV(strW))
		},
		// pure string functions on literals / small-domain strings are computed; on an opaque
		// symbolic string they are not encodable
		"strings.TrimSpace": strFn1("strings.TrimSpace", strings.TrimSpace),
		"strings.ToLower":   strFn1("strings.ToLower", strings.ToLower),
		"strings.ToUpper":   strFn1("strings.ToUpper", strings.ToUpper),
		"strings.Join": func(m *Machine, args []Value, g *Term, site ssa.Instruction) Value {
			m.stubsUsed["strings.Join = opaque string"]++
			return m.fresh("join", BV(strW))
		},
	}
	for k, v := range timeIntrinsics() {
		intrinsicTable[k] = v
	}
}

// strFn1 lifts a pure Go function string -> string over literal and small-domain string terms.
func strFn1(name string, f func(string) string) intrinsicFn {
	return func(m *Machine, args []Value, g *Term, site ssa.Instruction) Value {
		m.stubsUsed[name+" = computed on literal / small-domain strings"]++
		t := args[0].(*Term)
		one := func(k uint64) uint64 {
			if int(k) >= len(m.strs) {
				panic(notEncoded("%s of an opaque symbolic string", name))
			}
			return uint64(m.intern(f(m.strs[k])))
		}
		if t.IsConst() {
			return Const(strW, one(t.val))
		}
		if t.cases != nil {
			return lift1(t, strW, one)
		}
		panic(notEncoded("%s of an opaque symbolic string", name))
	}
}

func nop(what string) intrinsicFn {
	return func(m *Machine, args []Value, g *Term, site ssa.Instruction) Value {
		m.stubsUsed[what]++
		return nil
	}
}

func (m *Machine) errorStringType() *types.Pointer {
	pkg := m.prog.ImportedPackage("errors")
	if pkg == nil {
		panic(notEncoded("package errors not loaded"))
	}
	obj := pkg.Pkg.Scope().Lookup("errorString")
	return types.NewPointer(obj.Type())
}

// ---------- fmt ----------

func (m *Machine) fmtStub(fn *ssa.Function, args []Value) Value {
	m.stubsUsed["fmt.* = no effect / opaque string"]++
	rs := fn.Signature.Results()
	switch rs.Len() {
	case 0:
		return nil
	case 1:
		if isString(rs.At(0).Type()) {
			return m.fresh("fmt", BV(strW))
		}
		if types.IsInterface(rs.At(0).Type()) { // Errorf
			named := m.errorStringType()
			o := m.newObject(&StructV{F: []Value{m.fresh("fmt", BV(strW))}}, named.Elem(), "error")
			return &IfaceV{Alts: []IfaceAlt{{TS.True, named, ptrTo(o)}}}
		}
	case 2:
		return &TupleV{E: []Value{Const(64, 0), errNil()}}
	}
	panic(notEncoded("fmt function %s", fn.String()))
}

// ---------- locks (ghost state) ----------

// lockOp models Mutex/RWMutex with ghost state kept in the machine, keyed by
// the mutex's address.  No blocking: acquiring a held lock is a VC failure.
func lockOp(_ int, acquire, read bool) intrinsicFn {
	return func(m *Machine, args []Value, g *Term, site ssa.Instruction) Value {
		m.stubsUsed["sync.Mutex/RWMutex = ghost lock state"]++
		p := args[0].(*PtrV)
		for _, a := range p.Alts {
			key := fmt.Sprintf("lock#%d%v", a.Obj.id, a.Path)
			cg := And(g, a.G)
			st, _ := m.ghost[key].(*Term) // writer held
			if st == nil {
				st = TS.False
			}
			rd, _ := m.ghost[key+"r"].(*Term) // reader count
			if rd == nil {
				rd = Const(64, 0)
			}
			switch {
			case acquire && !read:
				m.checkNamed("no-panic", "lock acquired while already held (self-deadlock)", site, And(cg, Or(st, Not(Eq(rd, Const(64, 0))))))
				m.ghost[key] = Or(st, cg)
			case !acquire && !read:
				m.checkNamed("no-panic", "unlock of unlocked mutex", site, And(cg, Not(st)))
				m.ghost[key] = And(st, Not(cg))
			case acquire && read:
				m.checkNamed("no-panic", "read-lock while write-locked (self-deadlock)", site, And(cg, st))
				m.ghost[key+"r"] = Ite(cg, Add(rd, Const(64, 1)), rd)
			default:
				m.checkNamed("no-panic", "runlock of unlocked mutex", site, And(cg, Eq(rd, Const(64, 0))))
				m.ghost[key+"r"] = Ite(cg, Sub(rd, Const(64, 1)), rd)
			}
			if acquire {
				old, _ := m.ghost[key+"acq"].(*Term)
				if old == nil {
					old = TS.False
				}
				m.ghost[key+"acq"] = Or(old, cg)
			}
			if m.lockWatch != nil {
				m.lockWatch.lockEvent(m, key, acquire, read, cg)
			}
		}
		return nil
	}
}

func (m *Machine) checkNamed(class, label string, site ssa.Instruction, bad *Term) {
	if bad.IsFalse() {
		return
	}
	m.pendingNP = append(m.pendingNP, npRec{bad, class, label, m.posOf(site)})
}

// lockHeld returns the ghost "write-held" term of a mutex address.
func (m *Machine) lockHeld(p *PtrV) *Term {
	var res *Term = TS.False
	for _, a := range p.Alts {
		key := fmt.Sprintf("lock#%d%v", a.Obj.id, a.Path)
		st, _ := m.ghost[key].(*Term)
		if st == nil {
			st = TS.False
		}
		res = Or(res, And(a.G, st))
	}
	return res
}

// lockWatch: C16's lock discipline.  While active, every load/store of an object
// in the watched set must happen while the designated mutex is write-held.
// lockReadHeld: some reader holds the RWMutex.
func (m *Machine) lockReadHeld(p *PtrV) *Term {
	var res *Term = TS.False
	for _, a := range p.Alts {
		key := fmt.Sprintf("lock#%d%v", a.Obj.id, a.Path)
		rd, _ := m.ghost[key+"r"].(*Term)
		if rd == nil {
			continue
		}
		res = Or(res, And(a.G, Not(Eq(rd, Const(64, 0)))))
	}
	return res
}

type lockWatch struct {
	objs     map[*Object]bool
	lock     *PtrV
	n        int
	acquired *Term // the watched mutex has been acquired (read or write) during the operation
}

func (lw *lockWatch) access(m *Machine, p *PtrV, g *Term, site ssa.Instruction, store bool) {
	for _, a := range p.Alts {
		if !lw.objs[a.Obj] {
			continue
		}
		lw.n++
		held := m.lockHeld(lw.lock)
		if !store {
			held = Or(held, m.lockReadHeld(lw.lock))
		}
		bad := And(g, a.G, Not(held))
		if !bad.IsFalse() {
			m.pendingNP = append(m.pendingNP, npRec{bad, "assert", "shared state is only touched while the lock is held", m.posOf(site)})
		}
	}
}

// lockEvent: an operation must be ONE critical section of the watched mutex; taking it a
// second time (after having released it) splits check and act and loses atomicity.
func (lw *lockWatch) lockEvent(m *Machine, key string, acq, read bool, g *Term) {
	if !acq {
		return
	}
	for _, a := range lw.lock.Alts {
		if key != fmt.Sprintf("lock#%d%v", a.Obj.id, a.Path) {
			continue
		}
		if lw.acquired == nil {
			lw.acquired = TS.False
		}
		bad := And(g, a.G, lw.acquired)
		if !bad.IsFalse() {
			m.pendingNP = append(m.pendingNP, npRec{bad, "assert", "the operation is a single critical section (mutex not released and taken again)", ""})
		}
		lw.acquired = Or(lw.acquired, And(g, a.G))
	}
}

// ---------- go-funk ----------

func sliceElemType(t types.Type) types.Type {
	switch u := t.Underlying().(type) {
	case *types.Slice:
		return u.Elem()
	case *types.Array:
		return u.Elem()
	}
	return nil
}

func funkContains(m *Machine, args []Value, g *Term, site ssa.Instruction) Value {
	m.stubsUsed["go-funk Contains = documented semantics"]++
	in, inT := unwrapIface(args[0])
	el, elT := unwrapIface(args[1])
	switch c := in.(type) {
	case *SliceV:
		et := sliceElemType(inT)
		n := m.sliceCapMax(c)
		if l, ok := concreteInt(c.Len); ok {
			n = int(l)
		}
		res := TS.False
		for i := 0; i < n; i++ {
			v := m.sliceElem(c, i)
			if v == nil {
				continue
			}
			inRange := Slt(ConstI(64, int64(i)), c.Len)
			var hit *Term
			if fv, ok := el.(*FuncV); ok {
				hit = boolOr(m.callFuncV(fv, []Value{v}, And(g, inRange), site))
			} else if elT != nil && types.Identical(et, elT) {
				hit = valueEq(v, el)
			} else {
				hit = TS.False
			}
			res = Or(res, And(inRange, hit))
		}
		return res
	case *MapV:
		kt := inT.Underlying().(*types.Map).Key()
		if _, ok := el.(*FuncV); ok {
			panic(notEncoded("funk.Contains(map, predicate)"))
		}
		if elT == nil || !types.Identical(kt, elT) {
			return TS.False
		}
		_, ok := m.mapLookup(c, el, inT.Underlying().(*types.Map).Elem())
		return ok
	}
	panic(notEncoded("funk.Contains on %T", in))
}

func funkFilter(m *Machine, args []Value, g *Term, site ssa.Instruction) Value {
	m.stubsUsed["go-funk Filter = documented semantics"]++
	in, inT := unwrapIface(args[0])
	pred, _ := unwrapIface(args[1])
	c, ok := in.(*SliceV)
	fv, ok2 := pred.(*FuncV)
	if !ok || !ok2 {
		panic(notEncoded("funk.Filter on %T / %T", in, pred))
	}
	et := sliceElemType(inT)
	n := m.sliceCapMax(c)
	if l, ok := concreteInt(c.Len); ok {
		n = int(l)
	}
	// result: elements kept in order; position of element i = number of kept elements before it
	keep := make([]*Term, n)
	vals := make([]Value, n)
	for i := 0; i < n; i++ {
		vals[i] = m.sliceElem(c, i)
		inRange := Slt(ConstI(64, int64(i)), c.Len)
		if vals[i] == nil {
			keep[i] = TS.False
			vals[i] = m.zero(et)
			continue
		}
		r := boolOr(m.callFuncV(fv, []Value{vals[i]}, And(g, inRange), site))
		keep[i] = And(inRange, r)
	}
	arr := &ArrayV{E: make([]Value, n)}
	cnt := Const(64, 0)
	for j := range arr.E {
		arr.E[j] = m.zero(et)
	}
	for i := 0; i < n; i++ {
		for j := 0; j <= i; j++ {
			hit := And(keep[i], Eq(cnt, ConstI(64, int64(j))))
			if !hit.IsFalse() {
				arr.E[j] = mergeValue(hit, vals[i], arr.E[j])
			}
		}
		cnt = Add(cnt, Ite(keep[i], Const(64, 1), Const(64, 0)))
	}
	o := m.newObject(arr, et, "filter")
	res := &SliceV{Alts: []SliceAlt{{TS.True, o, 0, 0}}, Len: cnt}
	return &IfaceV{Alts: []IfaceAlt{{TS.True, inT, res}}}
}

// sortSlice: odd-even transposition network driven by the real less closure.
func sortSlice(m *Machine, args []Value, g *Term, site ssa.Instruction) Value {
	m.stubsUsed["sort.Slice = comparison network calling the real less"]++
	in, inT := unwrapIface(args[0])
	c, ok := in.(*SliceV)
	if !ok {
		panic(notEncoded("sort.Slice on %T", in))
	}
	less := args[1].(*FuncV)
	n := m.sliceCapMax(c)
	if l, ok := concreteInt(c.Len); ok {
		n = int(l)
	}
	et := sliceElemType(inT)
	_ = et
	for round := 0; round < n; round++ {
		for i := round % 2; i+1 < n; i += 2 {
			inRange := Slt(ConstI(64, int64(i+1)), c.Len)
			cg := And(g, inRange)
			if cg.IsFalse() {
				continue
			}
			// swap if less(i+1, i)
			r := boolOr(m.callFuncV(less, []Value{ConstI(64, int64(i+1)), ConstI(64, int64(i))}, cg, site))
			for _, a := range c.Alts {
				sw := And(cg, a.G, r)
				if sw.IsFalse() {
					continue
				}
				arr := a.Obj.val.(*ArrayV)
				if a.Off+i+1 >= len(arr.E) {
					continue
				}
				x, y := arr.E[a.Off+i], arr.E[a.Off+i+1]
				na := &ArrayV{E: append([]Value{}, arr.E...)}
				na.E[a.Off+i] = mergeValue(sw, y, x)
				na.E[a.Off+i+1] = mergeValue(sw, x, y)
				a.Obj.val = na
			}
		}
	}
	return nil
}

// ---------- rand ----------

func randIntn(m *Machine, args []Value, g *Term, site ssa.Instruction) Value {
	m.stubsUsed["math/rand = arbitrary value in range"]++
	n := args[len(args)-1].(*Term)
	m.noPanic(g, Sle(n, Const(n.sort.W, 0)), "rand: invalid argument (n <= 0)", site)
	r := m.fresh("rand", n.sort)
	m.assume(Implies(g, And(Sge(r, Const(n.sort.W, 0)), Slt(r, n))))
	return r
}

// randShuffle: Fisher-Yates with arbitrary choices = every permutation.
func randShuffle(m *Machine, args []Value, g *Term, site ssa.Instruction) Value {
	m.stubsUsed["rand.Shuffle = arbitrary permutation"]++
	n := args[1].(*Term)
	swap := args[2].(*FuncV)
	max, ok := concreteInt(n)
	if !ok {
		max = int64(m.unwind)
		// find a tighter syntactic bound when n is an ite-tree of constants
		if n.cases != nil {
			max = 0
			for _, x := range n.cases {
				if v := signed(x.k, 64); v > max {
					max = v
				}
			}
		} else {
			m.noPanic(g, Sgt(n, ConstI(64, max)), "shuffle: length outside the modelled bound", site)
		}
	}
	for i := max - 1; i > 0; i-- {
		cg := And(g, Slt(ConstI(64, i), n))
		if cg.IsFalse() {
			continue
		}
		j := m.fresh("shuf", BV(64))
		m.assume(Implies(cg, And(Sge(j, Const(64, 0)), Sle(j, ConstI(64, i)))))
		m.callFuncV(swap, []Value{ConstI(64, i), j}, cg, site)
	}
	return nil
}

func (m *Machine) callBuiltinClosure(a *FuncAlt, args []Value, g *Term, site ssa.Instruction) Value {
	panic(notEncoded("builtin closure %s", a.Builtin))
}

// ---------- sync.Map: modelled by an ordinary symbolic map kept in its own
// `dirty` field, so copying / zeroing the struct behaves like the real type ----------

func (m *Machine) syncMapField(p *PtrV) (*PtrV, types.Type) {
	pkg := m.prog.ImportedPackage("sync")
	st := pkg.Pkg.Scope().Lookup("Map").Type().Underlying().(*types.Struct)
	idx := -1
	for i := 0; i < st.NumFields(); i++ {
		if st.Field(i).Name() == "dirty" {
			idx = i
		}
	}
	if idx < 0 {
		panic(notEncoded("sync.Map layout"))
	}
	r := &PtrV{}
	for _, a := range p.Alts {
		r.Alts = append(r.Alts, PtrAlt{a.G, a.Obj, append(append([]int{}, a.Path...), idx)})
	}
	return r, st.Field(idx).Type()
}

func init() {
	intrinsicTable["(*sync.Map).Load"] = func(m *Machine, args []Value, g *Term, site ssa.Instruction) Value {
		m.stubsUsed["sync.Map = symbolic map"]++
		fp, _ := m.syncMapField(args[0].(*PtrV))
		mv := m.load(fp, g, site).(*MapV)
		val, ok := Value(&IfaceV{}), TS.False
		for _, a := range mv.Alts {
			for _, e := range a.Obj.val.(*MapContent).Entries {
				hit := And(a.G, e.P, valueEq(e.K, args[1]))
				if hit.IsFalse() {
					continue
				}
				val = mergeValue(hit, e.V, val)
				ok = Or(ok, hit)
			}
		}
		return &TupleV{E: []Value{val, ok}}
	}
	intrinsicTable["(*sync.Map).Store"] = func(m *Machine, args []Value, g *Term, site ssa.Instruction) Value {
		m.stubsUsed["sync.Map = symbolic map"]++
		fp, ft := m.syncMapField(args[0].(*PtrV))
		mv := m.load(fp, g, site).(*MapV)
		nilG := refNil(mv.Alts)
		if !And(g, nilG).IsFalse() {
			o := m.newObject(&MapContent{}, ft, "syncmap")
			nm := mergeValue(nilG, &MapV{Alts: []RefAlt{{TS.True, o}}}, mv).(*MapV)
			m.store(fp, nm, g, site)
			mv = nm
		}
		m.mapUpdate(mv, args[1], args[2], g, site)
		return nil
	}
	intrinsicTable["(*sync.Map).Delete"] = func(m *Machine, args []Value, g *Term, site ssa.Instruction) Value {
		m.stubsUsed["sync.Map = symbolic map"]++
		fp, _ := m.syncMapField(args[0].(*PtrV))
		mv := m.load(fp, g, site).(*MapV)
		m.mapDelete(mv, args[1], g)
		return nil
	}
}

// boolOr: result of a predicate call; a call under an infeasible guard yields nothing.
func boolOr(v Value) *Term {
	if t, ok := v.(*Term); ok {
		return t
	}
	return TS.False
}

// ---------- TryLock and sync/atomic ----------

// tryLockOp: the harness is one sequential thread, but TryLock exists for the case that
// *another* goroutine holds the mutex.  A free mutex is therefore acquired or not by an
// arbitrary environment choice (fresh Boolean); a mutex this thread holds is never acquired.
func tryLockOp(read bool) intrinsicFn {
	return func(m *Machine, args []Value, g *Term, site ssa.Instruction) Value {
		m.stubsUsed["sync.Mutex/RWMutex.TryLock = may fail arbitrarily (another goroutine may hold the lock)"]++
		p := args[0].(*PtrV)
		res := TS.False
		for _, a := range p.Alts {
			key := fmt.Sprintf("lock#%d%v", a.Obj.id, a.Path)
			cg := And(g, a.G)
			st, _ := m.ghost[key].(*Term)
			if st == nil {
				st = TS.False
			}
			rd, _ := m.ghost[key+"r"].(*Term)
			if rd == nil {
				rd = Const(64, 0)
			}
			free := Not(st)
			if !read {
				free = And(free, Eq(rd, Const(64, 0)))
			}
			ok := And(free, m.fresh("trylock", BoolSort))
			tg := And(cg, ok)
			if read {
				m.ghost[key+"r"] = Ite(tg, Add(rd, Const(64, 1)), rd)
			} else {
				m.ghost[key] = Or(st, tg)
			}
			old, _ := m.ghost[key+"acq"].(*Term)
			if old == nil {
				old = TS.False
			}
			m.ghost[key+"acq"] = Or(old, tg)
			if m.lockWatch != nil && !tg.IsFalse() {
				m.lockWatch.lockEvent(m, key, true, read, tg)
			}
			res = Or(res, And(a.G, ok))
		}
		return res
	}
}

// atomicField: pointer to the value field ("v") of a sync/atomic typed value.
func (m *Machine) atomicField(p *PtrV, typeName string) *PtrV {
	pkg := m.prog.ImportedPackage("sync/atomic")
	if pkg == nil {
		panic(notEncoded("sync/atomic not loaded"))
	}
	st := pkg.Pkg.Scope().Lookup(typeName).Type().Underlying().(*types.Struct)
	idx := -1
	for i := 0; i < st.NumFields(); i++ {
		if st.Field(i).Name() == "v" {
			idx = i
		}
	}
	if idx < 0 {
		panic(notEncoded("sync/atomic.%s layout", typeName))
	}
	r := &PtrV{}
	for _, a := range p.Alts {
		r.Alts = append(r.Alts, PtrAlt{a.G, a.Obj, append(append([]int{}, a.Path...), idx)})
	}
	return r
}

func init() {
	intrinsicTable["(*sync.Mutex).TryLock"] = tryLockOp(false)
	intrinsicTable["(*sync.RWMutex).TryLock"] = tryLockOp(false)
	intrinsicTable["(*sync.RWMutex).TryRLock"] = tryLockOp(true)
	const note = "sync/atomic = plain sequential cell"
	// atomic.Value: an interface cell
	intrinsicTable["(*sync/atomic.Value).Load"] = func(m *Machine, args []Value, g *Term, site ssa.Instruction) Value {
		m.stubsUsed[note]++
		return m.load(m.atomicField(args[0].(*PtrV), "Value"), g, site)
	}
	intrinsicTable["(*sync/atomic.Value).Store"] = func(m *Machine, args []Value, g *Term, site ssa.Instruction) Value {
		m.stubsUsed[note]++
		m.store(m.atomicField(args[0].(*PtrV), "Value"), args[1], g, site)
		return nil
	}
	intrinsicTable["(*sync/atomic.Value).Swap"] = func(m *Machine, args []Value, g *Term, site ssa.Instruction) Value {
		m.stubsUsed[note]++
		fp := m.atomicField(args[0].(*PtrV), "Value")
		old := m.load(fp, g, site)
		m.store(fp, args[1], g, site)
		return old
	}
	// typed integers / booleans (Go 1.19+) and the function forms on plain pointers
	for _, tn := range []string{"Int32", "Int64", "Uint32", "Uint64", "Bool"} {
		tn := tn
		fld := func(m *Machine, p Value) *PtrV { return m.atomicField(p.(*PtrV), tn) }
		intrinsicTable["(*sync/atomic."+tn+").Load"] = func(m *Machine, args []Value, g *Term, site ssa.Instruction) Value {
			m.stubsUsed[note]++
			v := m.load(fld(m, args[0]), g, site)
			if tn == "Bool" {
				return Not(Eq(v.(*Term), Const(32, 0)))
			}
			return v
		}
		intrinsicTable["(*sync/atomic."+tn+").Store"] = func(m *Machine, args []Value, g *Term, site ssa.Instruction) Value {
			m.stubsUsed[note]++
			v := args[1]
			if tn == "Bool" {
				v = Ite(args[1].(*Term), Const(32, 1), Const(32, 0))
			}
			m.store(fld(m, args[0]), v, g, site)
			return nil
		}
		if tn == "Bool" {
			continue
		}
		intrinsicTable["(*sync/atomic."+tn+").Add"] = func(m *Machine, args []Value, g *Term, site ssa.Instruction) Value {
			m.stubsUsed[note]++
			fp := fld(m, args[0])
			n := Add(m.load(fp, g, site).(*Term), args[1].(*Term))
			m.store(fp, n, g, site)
			return n
		}
		intrinsicTable["(*sync/atomic."+tn+").CompareAndSwap"] = func(m *Machine, args []Value, g *Term, site ssa.Instruction) Value {
			m.stubsUsed[note]++
			fp := fld(m, args[0])
			hit := Eq(m.load(fp, g, site).(*Term), args[1].(*Term))
			m.store(fp, args[2], And(g, hit), site)
			return hit
		}
		intrinsicTable["sync/atomic.Load"+tn] = func(m *Machine, args []Value, g *Term, site ssa.Instruction) Value {
			m.stubsUsed[note]++
			return m.load(args[0].(*PtrV), g, site)
		}
		intrinsicTable["sync/atomic.Store"+tn] = func(m *Machine, args []Value, g *Term, site ssa.Instruction) Value {
			m.stubsUsed[note]++
			m.store(args[0].(*PtrV), args[1], g, site)
			return nil
		}
		intrinsicTable["sync/atomic.Add"+tn] = func(m *Machine, args []Value, g *Term, site ssa.Instruction) Value {
			m.stubsUsed[note]++
			n := Add(m.load(args[0].(*PtrV), g, site).(*Term), args[1].(*Term))
			m.store(args[0].(*PtrV), n, g, site)
			return n
		}
		intrinsicTable["sync/atomic.CompareAndSwap"+tn] = func(m *Machine, args []Value, g *Term, site ssa.Instruction) Value {
			m.stubsUsed[note]++
			hit := Eq(m.load(args[0].(*PtrV), g, site).(*Term), args[1].(*Term))
			m.store(args[0].(*PtrV), args[2], And(g, hit), site)
			return hit
		}
	}
}
