package main

// Symbolic values.  Scalars are *Term; aggregates are immutable trees; every
// reference (pointer, slice, map, chan, func, interface) is a set of guarded
// alternatives with mutually exclusive guards, "nil" being the case in which no
// guard holds.

import (
	"fmt"
	"go/types"

	"golang.org/x/tools/go/ssa"
)

type Value interface{}

type StructV struct{ F []Value }
type ArrayV struct{ E []Value }
type TupleV struct{ E []Value }

type Object struct {
	id   int
	val  Value
	typ  types.Type // element type held
	name string
	born *Term // path condition under which the object was allocated
}

type PtrAlt struct {
	G    *Term
	Obj  *Object
	Path []int
}
type PtrV struct{ Alts []PtrAlt }

type SliceAlt struct {
	G   *Term
	Obj *Object // Obj.val is *ArrayV
	Off int
	Cap int // capacity limit from a 3-index slice expression, relative to Off; 0 = the physical array's
}

// room is the capacity of the alternative: elements from Off to the end of the backing
// array, cut down by a 3-index limit.
func (a SliceAlt) room() int {
	n := len(a.Obj.val.(*ArrayV).E) - a.Off
	if a.Cap > 0 && a.Cap < n {
		return a.Cap
	}
	if a.Cap < 0 {
		return 0
	}
	return n
}
type SliceV struct {
	Alts []SliceAlt
	Len  *Term // BV64
}

type RefAlt struct {
	G   *Term
	Obj *Object
}

// MapV / ChanV are references to objects holding *MapContent / *ChanContent.
type MapV struct{ Alts []RefAlt }
type ChanV struct{ Alts []RefAlt }

type MapEntry struct {
	K Value
	P *Term
	V Value
}
type MapContent struct{ Entries []MapEntry }

type ChanContent struct {
	Queue  []ChanItem
	Closed *Term
}
type ChanItem struct {
	G *Term
	V Value
}

type FuncAlt struct {
	G       *Term
	Fn      *ssa.Function
	Bind    []Value
	Builtin string // intrinsic closure (e.g. bound method of a model)
	Recv    Value
}
type FuncV struct{ Alts []FuncAlt }

type IfaceAlt struct {
	G *Term
	T types.Type
	V Value
}
type IfaceV struct{ Alts []IfaceAlt }

// JSONBlob is the result of json.Marshal: a deep copy of the exported, tagged part.
type JSONBlob struct {
	V Value
	T types.Type
}

type OpaqueV struct{ Tag string }

type RangeIter struct {
	M      *MapV
	alt    int
	idx    int
	Str    bool
	Cur    MapEntry // entry returned by the last Next
	CurG   *Term
	Done   bool
	SkipOK bool
	// rev: visit the entries present when the range started in reverse list order (cfg maporder=1);
	// entries appended during the iteration follow in list order
	rev  bool
	snap []int // per alternative: number of entries at Range time
}

func sameTarget(a, b PtrAlt) bool {
	if a.Obj != b.Obj || len(a.Path) != len(b.Path) {
		return false
	}
	for i := range a.Path {
		if a.Path[i] != b.Path[i] {
			return false
		}
	}
	return true
}

func isNilPtr(p *PtrV) *Term {
	var gs []*Term
	for _, a := range p.Alts {
		gs = append(gs, a.G)
	}
	return Not(Or(gs...))
}

func refNil(alts []RefAlt) *Term {
	var gs []*Term
	for _, a := range alts {
		gs = append(gs, a.G)
	}
	return Not(Or(gs...))
}

func isNilValue(v Value) *Term {
	switch x := v.(type) {
	case *PtrV:
		return isNilPtr(x)
	case *SliceV:
		var gs []*Term
		for _, a := range x.Alts {
			gs = append(gs, a.G)
		}
		return Not(Or(gs...))
	case *MapV:
		return refNil(x.Alts)
	case *ChanV:
		return refNil(x.Alts)
	case *FuncV:
		var gs []*Term
		for _, a := range x.Alts {
			gs = append(gs, a.G)
		}
		return Not(Or(gs...))
	case *IfaceV:
		var gs []*Term
		for _, a := range x.Alts {
			gs = append(gs, a.G)
		}
		return Not(Or(gs...))
	}
	panic(notEncoded("isNil on %T", v))
}

// mergeValue builds ite(c, a, b) structurally.
func mergeValue(c *Term, a, b Value) Value {
	if c.IsTrue() {
		return a
	}
	if c.IsFalse() {
		return b
	}
	if a == nil {
		return b
	}
	if b == nil {
		return a
	}
	switch x := a.(type) {
	case *Term:
		y, ok := b.(*Term)
		if !ok {
			panic(notEncoded("merge term with %T", b))
		}
		if x == y {
			return x
		}
		return Ite(c, x, y)
	case *StructV:
		y := b.(*StructV)
		if x == y {
			return x
		}
		r := &StructV{F: make([]Value, len(x.F))}
		for i := range x.F {
			r.F[i] = mergeValue(c, x.F[i], y.F[i])
		}
		return r
	case *ArrayV:
		y := b.(*ArrayV)
		if x == y {
			return x
		}
		if len(x.E) != len(y.E) {
			panic(notEncoded("merge arrays of different length"))
		}
		r := &ArrayV{E: make([]Value, len(x.E))}
		for i := range x.E {
			r.E[i] = mergeValue(c, x.E[i], y.E[i])
		}
		return r
	case *TupleV:
		y := b.(*TupleV)
		r := &TupleV{E: make([]Value, len(x.E))}
		for i := range x.E {
			r.E[i] = mergeValue(c, x.E[i], y.E[i])
		}
		return r
	case *PtrV:
		y := b.(*PtrV)
		if x == y {
			return x
		}
		r := &PtrV{}
		nc := Not(c)
		for _, al := range x.Alts {
			g := And(c, al.G)
			if !g.IsFalse() {
				r.Alts = append(r.Alts, PtrAlt{g, al.Obj, al.Path})
			}
		}
	outer:
		for _, al := range y.Alts {
			g := And(nc, al.G)
			if g.IsFalse() {
				continue
			}
			for i := range r.Alts {
				if sameTarget(r.Alts[i], al) {
					r.Alts[i].G = Or(r.Alts[i].G, g)
					continue outer
				}
			}
			r.Alts = append(r.Alts, PtrAlt{g, al.Obj, al.Path})
		}
		return r
	case *SliceV:
		y := b.(*SliceV)
		if x == y {
			return x
		}
		r := &SliceV{Len: Ite(c, x.Len, y.Len)}
		nc := Not(c)
		for _, al := range x.Alts {
			g := And(c, al.G)
			if !g.IsFalse() {
				r.Alts = append(r.Alts, SliceAlt{g, al.Obj, al.Off, al.Cap})
			}
		}
	outerS:
		for _, al := range y.Alts {
			g := And(nc, al.G)
			if g.IsFalse() {
				continue
			}
			for i := range r.Alts {
				if r.Alts[i].Obj == al.Obj && r.Alts[i].Off == al.Off && r.Alts[i].Cap == al.Cap {
					r.Alts[i].G = Or(r.Alts[i].G, g)
					continue outerS
				}
			}
			r.Alts = append(r.Alts, SliceAlt{g, al.Obj, al.Off, al.Cap})
		}
		return r
	case *MapV:
		y := b.(*MapV)
		if x == y {
			return x
		}
		return &MapV{Alts: mergeRefs(c, x.Alts, y.Alts)}
	case *ChanV:
		y := b.(*ChanV)
		if x == y {
			return x
		}
		return &ChanV{Alts: mergeRefs(c, x.Alts, y.Alts)}
	case *FuncV:
		y := b.(*FuncV)
		if x == y {
			return x
		}
		r := &FuncV{}
		nc := Not(c)
		for _, al := range x.Alts {
			g := And(c, al.G)
			if !g.IsFalse() {
				al.G = g
				r.Alts = append(r.Alts, al)
			}
		}
	outerF:
		for _, al := range y.Alts {
			g := And(nc, al.G)
			if g.IsFalse() {
				continue
			}
			for i := range r.Alts {
				if sameFunc(r.Alts[i], al) {
					r.Alts[i].G = Or(r.Alts[i].G, g)
					continue outerF
				}
			}
			al.G = g
			r.Alts = append(r.Alts, al)
		}
		return r
	case *IfaceV:
		y := b.(*IfaceV)
		if x == y {
			return x
		}
		r := &IfaceV{}
		nc := Not(c)
		for _, al := range x.Alts {
			g := And(c, al.G)
			if !g.IsFalse() {
				r.Alts = append(r.Alts, IfaceAlt{g, al.T, al.V})
			}
		}
	outerI:
		for _, al := range y.Alts {
			g := And(nc, al.G)
			if g.IsFalse() {
				continue
			}
			for i := range r.Alts {
				if types.Identical(r.Alts[i].T, al.T) {
					// merge payloads: under r.Alts[i].G the old payload, under g the new
					r.Alts[i].V = mergeValue(g, al.V, r.Alts[i].V)
					r.Alts[i].G = Or(r.Alts[i].G, g)
					continue outerI
				}
			}
			r.Alts = append(r.Alts, IfaceAlt{g, al.T, al.V})
		}
		return r
	case *JSONBlob:
		y, ok := b.(*JSONBlob)
		if !ok {
			panic(notEncoded("merge blob with %T", b))
		}
		if x == y {
			return x
		}
		return &JSONBlob{V: mergeValue(c, x.V, y.V), T: x.T}
	case *OpaqueV:
		return x
	case *RangeIter:
		if a == b {
			return a
		}
	}
	panic(notEncoded("mergeValue %T / %T", a, b))
}

func sameFunc(a, b FuncAlt) bool {
	if a.Fn != b.Fn || a.Builtin != b.Builtin || len(a.Bind) != len(b.Bind) {
		return false
	}
	for i := range a.Bind {
		if a.Bind[i] != b.Bind[i] {
			return false
		}
	}
	return a.Recv == b.Recv
}

func mergeRefs(c *Term, x, y []RefAlt) []RefAlt {
	var r []RefAlt
	nc := Not(c)
	for _, al := range x {
		g := And(c, al.G)
		if !g.IsFalse() {
			r = append(r, RefAlt{g, al.Obj})
		}
	}
outer:
	for _, al := range y {
		g := And(nc, al.G)
		if g.IsFalse() {
			continue
		}
		for i := range r {
			if r[i].Obj == al.Obj {
				r[i].G = Or(r[i].G, g)
				continue outer
			}
		}
		r = append(r, RefAlt{g, al.Obj})
	}
	return r
}

// restrict conjoins g to all alternative guards (used when a value is only
// meaningful under g; keeps alternative sets small).
func getPath(v Value, path []int) Value {
	for _, i := range path {
		switch x := v.(type) {
		case *StructV:
			v = x.F[i]
		case *ArrayV:
			if i >= len(x.E) {
				panic(notEncoded("getPath: index %d out of physical range %d", i, len(x.E)))
			}
			v = x.E[i]
		default:
			panic(notEncoded("getPath into %T", v))
		}
	}
	return v
}

func setPath(v Value, path []int, f func(old Value) Value) Value {
	if len(path) == 0 {
		return f(v)
	}
	i := path[0]
	switch x := v.(type) {
	case *StructV:
		r := &StructV{F: make([]Value, len(x.F))}
		copy(r.F, x.F)
		r.F[i] = setPath(x.F[i], path[1:], f)
		return r
	case *ArrayV:
		r := &ArrayV{E: make([]Value, len(x.E))}
		copy(r.E, x.E)
		r.E[i] = setPath(x.E[i], path[1:], f)
		return r
	}
	panic(notEncoded("setPath into %T", v))
}

// valueEq builds the Go == relation.
func valueEq(a, b Value) *Term {
	switch x := a.(type) {
	case *Term:
		return Eq(x, b.(*Term))
	case *StructV:
		y := b.(*StructV)
		var cs []*Term
		for i := range x.F {
			cs = append(cs, valueEq(x.F[i], y.F[i]))
		}
		return And(cs...)
	case *ArrayV:
		y := b.(*ArrayV)
		var cs []*Term
		for i := range x.E {
			cs = append(cs, valueEq(x.E[i], y.E[i]))
		}
		return And(cs...)
	case *PtrV:
		y := b.(*PtrV)
		var ds []*Term
		for _, p := range x.Alts {
			for _, q := range y.Alts {
				if sameTarget(p, q) {
					ds = append(ds, And(p.G, q.G))
				}
			}
		}
		ds = append(ds, And(isNilPtr(x), isNilPtr(y)))
		return Or(ds...)
	case *MapV:
		y := b.(*MapV)
		return refsEq(x.Alts, y.Alts)
	case *ChanV:
		y := b.(*ChanV)
		return refsEq(x.Alts, y.Alts)
	case *IfaceV:
		y := b.(*IfaceV)
		var ds []*Term
		for _, p := range x.Alts {
			for _, q := range y.Alts {
				if types.Identical(p.T, q.T) {
					ds = append(ds, And(p.G, q.G, valueEq(p.V, q.V)))
				}
			}
		}
		ds = append(ds, And(isNilValue(x), isNilValue(y)))
		return Or(ds...)
	case *SliceV:
		// only comparison with nil is legal in Go
		y := b.(*SliceV)
		if len(y.Alts) == 0 {
			return isNilValue(x)
		}
		if len(x.Alts) == 0 {
			return isNilValue(y)
		}
	case *FuncV:
		y := b.(*FuncV)
		if len(y.Alts) == 0 {
			return isNilValue(x)
		}
		if len(x.Alts) == 0 {
			return isNilValue(y)
		}
	}
	panic(notEncoded("valueEq %T / %T", a, b))
}

func refsEq(x, y []RefAlt) *Term {
	var ds []*Term
	for _, p := range x {
		for _, q := range y {
			if p.Obj == q.Obj {
				ds = append(ds, And(p.G, q.G))
			}
		}
	}
	ds = append(ds, And(refNil(x), refNil(y)))
	return Or(ds...)
}

type NotEncoded struct{ Msg string }

func (e *NotEncoded) Error() string { return "NOT-ENCODED: " + e.Msg }

func notEncoded(format string, args ...interface{}) *NotEncoded {
	return &NotEncoded{Msg: fmt.Sprintf(format, args...)}
}
