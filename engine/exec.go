package main

// BMC-style symbolic executor over go/ssa: blocks of a function run in
// topological order under a path guard, loops are unrolled (collapsed regions),
// calls are inlined, the heap is global with guarded stores.

import (
	"fmt"
	"go/constant"
	"go/token"
	"go/types"
	"math"
	"os"
	"sort"
	"strings"
	"time"

	"golang.org/x/tools/go/ssa"
)

type InputVar struct {
	Name string
	Kind string // int, int64, bool, str, env
	T    *Term
}

type VC struct {
	Harness string
	Class   string // assert, no-panic, unwind, reach, ord
	Label   string
	Pos     string
	Trivial bool   // closed by the simplifier
	Result  string // unsat, sat, unknown, trivial
	KF      []string
	Model   map[string]uint64
	Ms      float64
	Size    int
	Batched int
}

type KFRegion struct {
	Name string
	T    *Term
}

type GoTask struct {
	G    *Term
	Fn   *ssa.Function
	Bind []Value
	Args []Value
	Alt  *FuncAlt
}

type Loop struct {
	header  *ssa.BasicBlock
	blocks  map[*ssa.BasicBlock]bool
	liveOut []ssa.Value
	parent  *Loop
	waits   int // 0 unknown, 1 body calls time.Sleep (a retry / waiting loop), 2 it does not
}

// waiting reports whether the loop body sleeps: such loops are rare and each iteration
// is expensive (a whole retried operation), so every iteration is checked for feasibility.
func (l *Loop) waiting() bool {
	if l.waits == 0 {
		l.waits = 2
		for b := range l.blocks {
			for _, in := range b.Instrs {
				if c, ok := in.(*ssa.Call); ok {
					if fn := c.Call.StaticCallee(); fn != nil && fn.String() == "time.Sleep" {
						l.waits = 1
					}
				}
			}
		}
	}
	return l.waits == 1
}

type FuncInfo struct {
	rpo     []*ssa.BasicBlock
	rpoIdx  map[*ssa.BasicBlock]int
	loops   map[*ssa.BasicBlock]*Loop // by header
	inner   map[*ssa.BasicBlock]*Loop // innermost loop of a block
	ninstr  int
	isBack  map[[2]int]bool
	retType *types.Tuple
}

type inEdge struct {
	g    *Term
	pred *ssa.BasicBlock
	phis []Value
	self bool
}

type retRec struct {
	g *Term
	v Value
}

type deferRec struct {
	g    *Term
	call func(g *Term) Value
}

type exitSnap struct {
	g    *Term
	vals map[ssa.Value]Value
}

type Frame struct {
	m       *Machine
	fn      *ssa.Function
	info    *FuncInfo
	env     map[ssa.Value]Value
	pending map[*ssa.BasicBlock][]inEdge
	rets    []retRec
	defers  []deferRec
	g       *Term // guard of the block being executed (absolute path condition)
	entryG  *Term
	cur     *ssa.BasicBlock
	loopSt  []*loopExec
	depth   int
	hdrConcrete map[*ssa.BasicBlock]bool
}

type loopExec struct {
	loop  *Loop
	snaps []exitSnap
}

type Machine struct {
	prog      *ssa.Program
	solver    *Solver
	objN      int
	globals   map[*ssa.Global]*Object
	strs      []string
	strID     map[string]int
	cfg       map[string]int64
	inputs    []InputVar
	inputIdx  map[string]int
	vcs       []*VC
	kfs       []KFRegion
	openKF    map[string]bool
	finfo     map[*ssa.Function]*FuncInfo
	stack     []*ssa.Function
	pendingGo []GoTask
	unwind    int
	maxDepth  int
	maxRec    int
	encoded   map[string]int
	harness   string
	envN      int
	blocksRun int
	edgesRun  int
	instrsRun int
	loopsUnw  map[string]int
	observes  []Observation
	pinned    map[string]uint64 // conformance mode: inputs pinned to concrete values
	stubsUsed map[string]int
	initDone  map[*ssa.Package]bool
	allowInit func(p *ssa.Package) bool
	lockWatch *lockWatch
	trace     bool
	deadline  time.Time
	ghost     map[string]Value
	assumeN   int
	feasN     int
	snaps     []*snapshot
	pendingNP []npRec
	feasEvery int
	gNow      *Term
	sleepN    int
	sleepHooks []sleepHook
}

type sleepHook struct {
	k int
	f *FuncV
}

type Observation struct {
	Name string
	V    Value
}

func NewMachine(prog *ssa.Program, solver *Solver) *Machine {
	m := &Machine{prog: prog, solver: solver, globals: map[*ssa.Global]*Object{},
		strID: map[string]int{}, cfg: map[string]int64{}, inputIdx: map[string]int{},
		finfo: map[*ssa.Function]*FuncInfo{}, unwind: 24, feasEvery: 8, maxDepth: 120, maxRec: 14,
		encoded: map[string]int{}, loopsUnw: map[string]int{}, openKF: map[string]bool{},
		stubsUsed: map[string]int{}, initDone: map[*ssa.Package]bool{}, ghost: map[string]Value{}}
	m.intern("")
	return m
}

func (m *Machine) intern(s string) int {
	if id, ok := m.strID[s]; ok {
		return id
	}
	id := len(m.strs)
	m.strs = append(m.strs, s)
	m.strID[s] = id
	return id
}

const strW = 32

func (m *Machine) strConst(s string) *Term { return Const(strW, uint64(m.intern(s))) }

// concreteString returns the text of a string-id term if it is a known literal.
func (m *Machine) concreteString(v Value) (string, bool) {
	t, ok := v.(*Term)
	if !ok || !t.IsConst() || int(t.val) >= len(m.strs) {
		return "", false
	}
	return m.strs[t.val], true
}

func (m *Machine) newObject(v Value, t types.Type, name string) *Object {
	m.objN++
	return &Object{id: m.objN, val: v, typ: t, name: name, born: m.gNow}
}

func ptrTo(o *Object) *PtrV { return &PtrV{Alts: []PtrAlt{{TS.True, o, nil}}} }

func (m *Machine) fresh(prefix string, s Sort) *Term {
	m.envN++
	name := fmt.Sprintf("env!%s!%d", prefix, m.envN)
	t := Var(name, s)
	m.inputs = append(m.inputs, InputVar{Name: name, Kind: "env", T: t})
	return t
}

// ---------- types ----------

func isUnsigned(t types.Type) bool {
	b, ok := t.Underlying().(*types.Basic)
	return ok && b.Info()&types.IsUnsigned != 0
}

func isFloat(t types.Type) bool {
	b, ok := t.Underlying().(*types.Basic)
	return ok && b.Info()&types.IsFloat != 0
}

func isString(t types.Type) bool {
	b, ok := t.Underlying().(*types.Basic)
	return ok && b.Info()&types.IsString != 0
}

func scalarSort(t types.Type) (Sort, bool) {
	b, ok := t.Underlying().(*types.Basic)
	if !ok {
		return Sort{}, false
	}
	switch b.Kind() {
	case types.Bool, types.UntypedBool:
		return BoolSort, true
	case types.Int, types.Int64, types.Uint, types.Uint64, types.Uintptr, types.UntypedInt:
		return BV(64), true
	case types.Int32, types.Uint32, types.UntypedRune:
		return BV(32), true
	case types.Int16, types.Uint16:
		return BV(16), true
	case types.Int8, types.Uint8:
		return BV(8), true
	case types.String, types.UntypedString:
		return BV(strW), true
	case types.Float64, types.Float32, types.UntypedFloat:
		return BV(64), true
	}
	return Sort{}, false
}

func (m *Machine) zero(t types.Type) Value {
	switch u := t.Underlying().(type) {
	case *types.Basic:
		s, ok := scalarSort(u)
		if !ok {
			if u.Kind() == types.UnsafePointer {
				return &PtrV{}
			}
			if u.Kind() == types.UntypedNil {
				return &PtrV{}
			}
			panic(notEncoded("zero of basic %v", u))
		}
		if s.Bool {
			return TS.False
		}
		return Const(s.W, 0)
	case *types.Pointer:
		return &PtrV{}
	case *types.Struct:
		r := &StructV{F: make([]Value, u.NumFields())}
		for i := range r.F {
			r.F[i] = m.zero(u.Field(i).Type())
		}
		return r
	case *types.Array:
		r := &ArrayV{E: make([]Value, int(u.Len()))}
		for i := range r.E {
			r.E[i] = m.zero(u.Elem())
		}
		return r
	case *types.Slice:
		return &SliceV{Len: Const(64, 0)}
	case *types.Map:
		return &MapV{}
	case *types.Chan:
		return &ChanV{}
	case *types.Signature:
		return &FuncV{}
	case *types.Interface:
		return &IfaceV{}
	case *types.Tuple:
		r := &TupleV{E: make([]Value, u.Len())}
		for i := range r.E {
			r.E[i] = m.zero(u.At(i).Type())
		}
		return r
	}
	panic(notEncoded("zero of %v", t))
}

func (m *Machine) constValue(c *ssa.Const) Value {
	t := c.Type()
	if c.Value == nil {
		return m.zero(t)
	}
	b, ok := t.Underlying().(*types.Basic)
	if !ok {
		panic(notEncoded("const of type %v", t))
	}
	switch {
	case b.Info()&types.IsBoolean != 0:
		return Bool(constant.BoolVal(c.Value))
	case b.Info()&types.IsString != 0:
		return m.strConst(constant.StringVal(c.Value))
	case b.Info()&types.IsFloat != 0:
		f, _ := constant.Float64Val(c.Value)
		return Const(64, math.Float64bits(f))
	case b.Info()&types.IsInteger != 0:
		s, _ := scalarSort(b)
		if v, ok := constant.Int64Val(c.Value); ok {
			return ConstI(s.W, v)
		}
		if v, ok := constant.Uint64Val(c.Value); ok {
			return Const(s.W, v)
		}
	}
	panic(notEncoded("const %v of type %v", c.Value, t))
}

// ---------- function info ----------

func (m *Machine) info(fn *ssa.Function) *FuncInfo {
	if fi, ok := m.finfo[fn]; ok {
		return fi
	}
	fi := &FuncInfo{rpoIdx: map[*ssa.BasicBlock]int{}, loops: map[*ssa.BasicBlock]*Loop{},
		inner: map[*ssa.BasicBlock]*Loop{}, isBack: map[[2]int]bool{}}
	m.finfo[fn] = fi
	if len(fn.Blocks) == 0 {
		return fi
	}
	for _, b := range fn.Blocks {
		fi.ninstr += len(b.Instrs)
	}
	// back edges: u->h where h dominates u
	for _, b := range fn.Blocks {
		for _, s := range b.Succs {
			if s.Dominates(b) {
				fi.isBack[[2]int{b.Index, s.Index}] = true
			}
		}
	}
	// RPO over the DAG without back edges
	seen := map[*ssa.BasicBlock]bool{}
	var post []*ssa.BasicBlock
	var dfs func(b *ssa.BasicBlock)
	dfs = func(b *ssa.BasicBlock) {
		seen[b] = true
		// visit successors in reverse so that RPO follows source order
		for i := len(b.Succs) - 1; i >= 0; i-- {
			s := b.Succs[i]
			if fi.isBack[[2]int{b.Index, s.Index}] || seen[s] {
				continue
			}
			dfs(s)
		}
		post = append(post, b)
	}
	dfs(fn.Blocks[0])
	for i := len(post) - 1; i >= 0; i-- {
		fi.rpoIdx[post[i]] = len(fi.rpo)
		fi.rpo = append(fi.rpo, post[i])
	}
	// natural loops
	for _, b := range fn.Blocks {
		for _, s := range b.Succs {
			if !fi.isBack[[2]int{b.Index, s.Index}] {
				continue
			}
			l := fi.loops[s]
			if l == nil {
				l = &Loop{header: s, blocks: map[*ssa.BasicBlock]bool{s: true}}
				fi.loops[s] = l
			}
			stack := []*ssa.BasicBlock{b}
			for len(stack) > 0 {
				x := stack[len(stack)-1]
				stack = stack[:len(stack)-1]
				if l.blocks[x] {
					continue
				}
				l.blocks[x] = true
				for _, p := range x.Preds {
					stack = append(stack, p)
				}
			}
		}
	}
	// nesting: parent = smallest strictly containing loop
	for _, l := range fi.loops {
		for _, o := range fi.loops {
			if o == l || !o.blocks[l.header] || len(o.blocks) <= len(l.blocks) {
				continue
			}
			if l.parent == nil || len(o.blocks) < len(l.parent.blocks) {
				l.parent = o
			}
		}
	}
	for _, b := range fn.Blocks {
		for _, l := range fi.loops {
			if l.blocks[b] && (fi.inner[b] == nil || len(l.blocks) < len(fi.inner[b].blocks)) {
				fi.inner[b] = l
			}
		}
	}
	// live-out registers per loop
	for _, l := range fi.loops {
		for b := range l.blocks {
			for _, ins := range b.Instrs {
				v, ok := ins.(ssa.Value)
				if !ok || v.Referrers() == nil {
					continue
				}
				for _, r := range *v.Referrers() {
					if r.Block() != nil && !l.blocks[r.Block()] {
						l.liveOut = append(l.liveOut, v)
						break
					}
				}
			}
		}
		sort.Slice(l.liveOut, func(i, j int) bool { return l.liveOut[i].Name() < l.liveOut[j].Name() })
	}
	return fi
}

// ---------- frames ----------

func (f *Frame) get(v ssa.Value) Value {
	switch x := v.(type) {
	case *ssa.Const:
		return f.m.constValue(x)
	case *ssa.Global:
		return ptrTo(f.m.global(x))
	case *ssa.Function:
		return &FuncV{Alts: []FuncAlt{{G: TS.True, Fn: x}}}
	case *ssa.Builtin:
		panic(notEncoded("builtin %s used as value", x.Name()))
	}
	r, ok := f.env[v]
	if !ok {
		panic(notEncoded("%s: value %s (%T) not defined on this path", f.fn.String(), v.Name(), v))
	}
	return r
}

func (f *Frame) term(v ssa.Value) *Term {
	t, ok := f.get(v).(*Term)
	if !ok {
		panic(notEncoded("%s: %s is not a scalar (%T)", f.fn.String(), v.Name(), f.get(v)))
	}
	return t
}

func (m *Machine) global(g *ssa.Global) *Object {
	if o, ok := m.globals[g]; ok {
		return o
	}
	if g.Pkg != nil {
		m.runInit(g.Pkg)
		if o, ok := m.globals[g]; ok {
			return o
		}
	}
	et := g.Type().(*types.Pointer).Elem()
	o := m.newObject(m.zero(et), et, g.String())
	m.globals[g] = o
	return o
}

func (m *Machine) runInit(p *ssa.Package) {
	if m.initDone[p] {
		return
	}
	m.initDone[p] = true
	if m.allowInit == nil || !m.allowInit(p) {
		return
	}
	init := p.Func("init")
	if init == nil || len(init.Blocks) == 0 {
		return
	}
	save := m.harness
	m.callFn(init, nil, nil, TS.True, nil)
	m.harness = save
}

func (m *Machine) posOf(ins ssa.Instruction) string {
	if ins == nil {
		return ""
	}
	p := ins.Pos()
	if p == token.NoPos {
		// search neighbours for a position
		if b := ins.Block(); b != nil {
			for _, x := range b.Instrs {
				if x.Pos() != token.NoPos {
					p = x.Pos()
					break
				}
			}
		}
	}
	if p == token.NoPos {
		if ins.Parent() != nil {
			return ins.Parent().String()
		}
		return ""
	}
	pos := m.prog.Fset.Position(p)
	fn := pos.Filename
	if i := strings.LastIndex(fn, "/"); i >= 0 {
		// keep last two path elements
		if j := strings.LastIndex(fn[:i], "/"); j >= 0 {
			fn = fn[j+1:]
		}
	}
	return fmt.Sprintf("%s:%d", fn, pos.Line)
}

// callFn inlines fn under guard g.  Returns nil, a single value or a *TupleV.
func (m *Machine) callFn(fn *ssa.Function, bind []Value, args []Value, g *Term, site ssa.Instruction) Value {
	if g.IsFalse() {
		return nil
	}
	if fn.Pkg != nil && fn.Name() == "init" && fn.Pkg.Func("init") == fn {
		if m.allowInit == nil || !m.allowInit(fn.Pkg) {
			m.initDone[fn.Pkg] = true
			return nil
		}
		m.initDone[fn.Pkg] = true
	}
	if r, ok := m.intrinsic(fn, bind, args, g, site); ok {
		return r
	}
	if len(fn.Blocks) == 0 {
		if fn.Pkg != nil {
			fn.Pkg.Build()
		}
		if len(fn.Blocks) == 0 {
			panic(notEncoded("call of external function %s", fn.String()))
		}
	}
	if fn.Pkg != nil {
		m.runInit(fn.Pkg)
	}
	if len(m.stack) >= m.maxDepth {
		panic(notEncoded("call depth %d exceeded at %s", m.maxDepth, fn.String()))
	}
	rec := 0
	for _, s := range m.stack {
		if s == fn {
			rec++
		}
	}
	if rec >= m.maxRec {
		m.unwindFailure(g, "recursion depth "+fn.String(), site)
		return m.zeroResults(fn)
	}
	if !m.deadline.IsZero() && time.Now().After(m.deadline) {
		panic(notEncoded("executor deadline exceeded in %s", fn.String()))
	}
	fi := m.info(fn)
	if _, ok := m.encoded[fn.String()]; !ok {
		m.encoded[fn.String()] = fi.ninstr
	}
	f := &Frame{m: m, fn: fn, info: fi, env: map[ssa.Value]Value{}, pending: map[*ssa.BasicBlock][]inEdge{},
		entryG: g, depth: len(m.stack), hdrConcrete: map[*ssa.BasicBlock]bool{}}
	for i, p := range fn.Params {
		if i >= len(args) {
			panic(notEncoded("call %s: missing argument %d", fn.String(), i))
		}
		f.env[p] = args[i]
	}
	for i, fv := range fn.FreeVars {
		if i >= len(bind) {
			panic(notEncoded("call %s: missing binding %d", fn.String(), i))
		}
		f.env[fv] = bind[i]
	}
	m.stack = append(m.stack, fn)
	if m.trace {
		fmt.Fprintf(os.Stderr, "%s-> %s   [g=%.150s]\n", strings.Repeat(" ", len(m.stack)), fn.String(), g.String())
	}
	f.pending[fn.Blocks[0]] = []inEdge{{g: g}}
	f.execRegion(nil)
	m.stack = m.stack[:len(m.stack)-1]
	// merge returns
	var res Value
	for i := len(f.rets) - 1; i >= 0; i-- {
		r := f.rets[i]
		if res == nil {
			res = r.v
		} else {
			res = mergeValue(r.g, r.v, res)
		}
	}
	if res == nil && fn.Signature.Results().Len() > 0 {
		return m.zeroResults(fn)
	}
	return res
}

func (m *Machine) zeroResults(fn *ssa.Function) Value {
	rs := fn.Signature.Results()
	switch rs.Len() {
	case 0:
		return nil
	case 1:
		return m.zero(rs.At(0).Type())
	}
	return m.zero(rs)
}

// execRegion runs the blocks of a loop body (one iteration) or of the whole
// function (l == nil) in topological order.
func (f *Frame) execRegion(l *Loop) {
	fi := f.info
	for _, b := range fi.rpo {
		if l != nil && !l.blocks[b] {
			continue
		}
		in := fi.inner[b]
		if in != l {
			// b belongs to a loop nested in l: run it when we meet its outermost header inside l
			top := in
			for top.parent != l {
				top = top.parent
				if top == nil {
					break
				}
			}
			if top != nil && top.header == b {
				f.execLoop(top)
			}
			continue
		}
		f.execBlock(b)
	}
}

func (f *Frame) execLoop(l *Loop) {
	m := f.m
	le := &loopExec{loop: l}
	f.loopSt = append(f.loopSt, le)
	key := f.fn.String() + "#" + fmt.Sprint(l.header.Index)
	iter := 0
	for {
		edges := f.pending[l.header]
		var gs []*Term
		for _, e := range edges {
			gs = append(gs, e.g)
		}
		g := Or(gs...)
		if g.IsFalse() {
			delete(f.pending, l.header)
			break
		}
		if ((iter > 0 && iter%m.feasEvery == 0) || l.waiting()) && !g.IsTrue() && !f.hdrConcrete[l.header] {
			// is another iteration feasible at all?
			if m.feasible(g) == Unsat {
				delete(f.pending, l.header)
				break
			}
		}
		if iter >= m.unwind {
			delete(f.pending, l.header)
			if m.feasible(g) == Unsat {
				break
			}
			m.unwindFailure(g, fmt.Sprintf("loop at %s (bound %d)", m.posOf(l.header.Instrs[0]), m.unwind), l.header.Instrs[0])
			break
		}
		iter++
		f.execRegion(l)
	}
	if iter > m.loopsUnw[key] {
		m.loopsUnw[key] = iter
	}
	f.loopSt = f.loopSt[:len(f.loopSt)-1]
	// merge live-out registers over the exits
	if len(le.snaps) > 0 {
		for _, r := range l.liveOut {
			var res Value
			for i := len(le.snaps) - 1; i >= 0; i-- {
				s := le.snaps[i]
				v, ok := s.vals[r]
				if !ok {
					continue
				}
				if res == nil {
					res = v
				} else {
					res = mergeValue(s.g, v, res)
				}
			}
			if res != nil {
				f.env[r] = res
			}
		}
	}
}

func (f *Frame) addEdge(from, to *ssa.BasicBlock, g *Term, self bool) {
	if g.IsFalse() {
		return
	}
	f.m.edgesRun++
	e := inEdge{g: g, pred: from, self: self}
	// evaluate phi operands now
	idx := -1
	for i, p := range to.Preds {
		if p == from {
			idx = i
			break
		}
	}
	for _, ins := range to.Instrs {
		phi, ok := ins.(*ssa.Phi)
		if !ok {
			break
		}
		if self {
			e.phis = append(e.phis, f.env[phi])
		} else {
			e.phis = append(e.phis, f.get(phi.Edges[idx]))
		}
	}
	f.pending[to] = append(f.pending[to], e)
	// leaving loops: snapshot live-outs
	for i := len(f.loopSt) - 1; i >= 0; i-- {
		le := f.loopSt[i]
		if le.loop.blocks[to] {
			break
		}
		if len(le.loop.liveOut) == 0 {
			continue
		}
		s := exitSnap{g: g, vals: map[ssa.Value]Value{}}
		for _, r := range le.loop.liveOut {
			if v, ok := f.env[r]; ok {
				s.vals[r] = v
			}
		}
		le.snaps = append(le.snaps, s)
	}
}

func (f *Frame) execBlock(b *ssa.BasicBlock) {
	edges := f.pending[b]
	if len(edges) == 0 {
		return
	}
	delete(f.pending, b)
	var gs []*Term
	for _, e := range edges {
		gs = append(gs, e.g)
	}
	g := Or(gs...)
	if g.IsFalse() {
		return
	}
	f.m.blocksRun++
	f.g = g
	f.cur = b
	// phis
	np := 0
	for _, ins := range b.Instrs {
		if _, ok := ins.(*ssa.Phi); !ok {
			break
		}
		np++
	}
	for i := 0; i < np; i++ {
		var res Value
		for k := len(edges) - 1; k >= 0; k-- {
			e := edges[k]
			if res == nil {
				res = e.phis[i]
			} else {
				res = mergeValue(e.g, e.phis[i], res)
			}
		}
		f.env[b.Instrs[i].(*ssa.Phi)] = res
	}
	for _, ins := range b.Instrs[np:] {
		f.m.instrsRun++
		f.m.gNow = f.g
		f.exec(ins)
		if f.g.IsFalse() {
			return
		}
	}
}

func (m *Machine) checkDeadline(where string) {
	if !m.deadline.IsZero() && time.Now().After(m.deadline) {
		panic(notEncoded("executor deadline exceeded in %s", where))
	}
}

func (m *Machine) feasible(g *Term) Result {
	m.checkDeadline("feasibility query")
	m.flushNP()
	m.feasN++
	if m.trace {
		fmt.Fprintf(os.Stderr, "  [feasibility query #%d in %s]\n", m.feasN, m.stack[len(m.stack)-1].Name())
	}
	r, _ := m.solver.Check([]*Term{g}, false, nil)
	return r
}

func (m *Machine) unwindFailure(g *Term, what string, site ssa.Instruction) {
	vc := &VC{Harness: m.harness, Class: "unwind", Label: what, Pos: m.posOf(site), Result: "unknown"}
	m.vcs = append(m.vcs, vc)
	// cut the path so the rest of the run stays meaningful
	m.assume(Not(g))
}

func (m *Machine) assume(t *Term) {
	if t.IsTrue() {
		return
	}
	m.flushNP()
	m.assumeN++
	m.solver.Assert(t)
}

// noPanic records a VC that cond cannot hold under g.  The VCs are discharged
// in batches (flushNP) before the next query that has to see their negation as
// an assumption; until then nothing assumes them.
func (m *Machine) noPanic(g, cond *Term, label string, site ssa.Instruction) {
	c := And(g, cond)
	if c.IsFalse() {
		return
	}
	m.pendingNP = append(m.pendingNP, npRec{c, "no-panic", label, m.posOf(site)})
}

type npRec struct {
	c     *Term
	class string
	label string
	pos   string
}

func (m *Machine) flushNP() {
	if len(m.pendingNP) == 0 {
		return
	}
	pend := m.pendingNP
	m.pendingNP = nil
	// dedupe
	seen := map[int]bool{}
	var conds []*Term
	var uniq []npRec
	for _, p := range pend {
		if seen[p.c.id] {
			continue
		}
		seen[p.c.id] = true
		conds = append(conds, p.c)
		uniq = append(uniq, p)
	}
	_ = conds
	m.dischargeNP(uniq)
}

// dischargeNP: one query for the whole batch; on failure bisect so that the
// reachable panics are isolated with O(k log n) queries.
func (m *Machine) dischargeNP(list []npRec) {
	if len(list) == 0 {
		return
	}
	if len(list) == 1 {
		p := list[0]
		vc := m.checkVC(p.class, p.label, p.pos, p.c)
		if vc.Result != "unsat" && vc.Result != "trivial" || len(vc.KF) > 0 {
			m.solver.Assert(Not(p.c))
			m.assumeN++
		}
		return
	}
	start := time.Now()
	var conds []*Term
	for _, p := range list {
		conds = append(conds, p.c)
	}
	any := Or(conds...)
	res, _ := m.solver.Check([]*Term{any}, false, nil)
	ms := float64(time.Since(start).Microseconds()) / 1000
	if res == Unsat {
		for _, p := range list {
			m.vcs = append(m.vcs, &VC{Harness: m.harness, Class: p.class, Label: p.label, Pos: p.pos, Result: "unsat", Ms: ms / float64(len(list)), Size: p.c.Size(), Batched: len(list)})
		}
		// unsat: the negation is implied by the assumptions already made, nothing to add
		return
	}
	h := len(list) / 2
	m.dischargeNP(list[:h])
	m.dischargeNP(list[h:])
}

// checkVC decides that bad is unsatisfiable together with the assumptions.
func (m *Machine) checkVC(class, label, pos string, bad *Term) *VC {
	m.checkDeadline("VC " + label)
	if class != "no-panic" {
		m.flushNP()
	}
	vc := &VC{Harness: m.harness, Class: class, Label: label, Pos: pos}
	m.vcs = append(m.vcs, vc)
	if bad.IsFalse() {
		vc.Trivial = true
		vc.Result = "trivial"
		return vc
	}
	vc.Size = bad.Size()
	start := time.Now()
	// main query: outside every open known-finding region
	var excl []*Term
	for _, k := range m.kfs {
		excl = append(excl, Not(k.T))
	}
	q := append([]*Term{bad}, excl...)
	res, model := m.solver.Check(q, true, m.inputTerms())
	vc.Result = res.String()
	vc.Model = model
	if res == Unsat {
		for _, k := range m.kfs {
			r, mod := m.solver.Check([]*Term{bad, k.T}, true, m.inputTerms())
			if r == Sat {
				vc.KF = append(vc.KF, k.Name)
				if vc.Model == nil {
					vc.Model = mod
				}
			} else if r == Unknown {
				vc.Result = "unknown"
			}
		}
	}
	vc.Ms = float64(time.Since(start).Microseconds()) / 1000
	return vc
}

func (m *Machine) inputTerms() []*Term {
	ts := make([]*Term, 0, len(m.inputs))
	for _, iv := range m.inputs {
		ts = append(ts, iv.T)
	}
	return ts
}
