package main

// Hash-consed SMT terms (Bool and fixed-width bit-vectors) with a simplifying
// constructor layer.  Everything concrete stays concrete: the executor relies on
// constant folding, ite-lifting over constant trees and and/or flattening so that
// loop counters, literal slice lengths and most guards never reach the solver.

import (
	"fmt"
	"sort"
	"strconv"
	"strings"
)

type Sort struct {
	Bool bool
	W    int
}

var BoolSort = Sort{Bool: true}

func BV(w int) Sort { return Sort{W: w} }

func (s Sort) String() string {
	if s.Bool {
		return "Bool"
	}
	return fmt.Sprintf("(_ BitVec %d)", s.W)
}

type Op int

const (
	OpConst Op = iota
	OpVar
	OpNot
	OpAnd
	OpOr
	OpIte
	OpEq
	OpAdd
	OpSub
	OpMul
	OpSDiv
	OpSRem
	OpUDiv
	OpURem
	OpNeg
	OpBAnd
	OpBOr
	OpBXor
	OpBNot
	OpShl
	OpLshr
	OpAshr
	OpSlt
	OpSle
	OpUlt
	OpUle
	OpExtract
	OpZext
	OpSext
	OpUF
)

var opNames = map[Op]string{
	OpNot: "not", OpAnd: "and", OpOr: "or", OpIte: "ite", OpEq: "=",
	OpAdd: "bvadd", OpSub: "bvsub", OpMul: "bvmul", OpSDiv: "bvsdiv", OpSRem: "bvsrem",
	OpUDiv: "bvudiv", OpURem: "bvurem", OpNeg: "bvneg", OpBAnd: "bvand", OpBOr: "bvor",
	OpBXor: "bvxor", OpBNot: "bvnot", OpShl: "bvshl", OpLshr: "bvlshr", OpAshr: "bvashr",
	OpSlt: "bvslt", OpSle: "bvsle", OpUlt: "bvult", OpUle: "bvule",
}

type Term struct {
	id    int
	op    Op
	sort  Sort
	args  []*Term
	val   uint64 // OpConst (bool: 0/1)
	name  string // OpVar, OpUF
	hi    int    // OpExtract hi / ext amount
	lo    int
	cases []kcase // non-nil: the term is a constant or a chain of constants (small-domain value)
}

// kcase: the term has value k exactly when c holds.  A case term is the chain
// ite(c1,k1,ite(c2,k2,...,kn)) with k1<k2<...<kn; the conditions are exact and
// (by construction) exhaustive, so small-domain integers (seat numbers, counters)
// stay propositional: arithmetic on them is folded at construction time and
// never reaches the solver.
type kcase struct {
	k uint64
	c *Term
}

const maxCases = 64

// mkCases builds the canonical case term for value -> condition.
func mkCases(w int, m map[uint64]*Term) *Term {
	ks := make([]uint64, 0, len(m))
	for k, c := range m {
		if c.IsFalse() {
			continue
		}
		if c.IsTrue() {
			return Const(w, k)
		}
		ks = append(ks, k)
	}
	if len(ks) == 0 {
		// unreachable value: any constant will do
		return Const(w, 0)
	}
	sort.Slice(ks, func(i, j int) bool { return signed(ks[i], w) < signed(ks[j], w) })
	if len(ks) == 1 {
		return Const(w, ks[0])
	}
	t := Const(w, ks[len(ks)-1])
	for i := len(ks) - 2; i >= 0; i-- {
		t = TS.intern(&Term{op: OpIte, sort: BV(w), args: []*Term{m[ks[i]], Const(w, ks[i]), t}})
	}
	if t.cases == nil {
		cs := make([]kcase, len(ks))
		var prev []*Term
		for i, k := range ks {
			if i < len(ks)-1 {
				cs[i] = kcase{k, m[k]}
				prev = append(prev, m[k])
			} else {
				cs[i] = kcase{k, Not(Or(prev...))}
			}
		}
		t.cases = cs
	}
	return t
}

func addCase(m map[uint64]*Term, k uint64, c *Term) {
	if c.IsFalse() {
		return
	}
	if old, ok := m[k]; ok {
		m[k] = Or(old, c)
	} else {
		m[k] = c
	}
}

type TermStore struct {
	tab   map[string]*Term
	terms []*Term
	vars  []*Term
	ufs   map[string]string // name -> declaration
	bin   map[[3]int]*Term  // memo of binary and/or
	True  *Term
	False *Term
}

var TS *TermStore

func NewTermStore() *TermStore {
	ts := &TermStore{tab: map[string]*Term{}, ufs: map[string]string{}, bin: map[[3]int]*Term{}}
	ts.True = ts.intern(&Term{op: OpConst, sort: BoolSort, val: 1})
	ts.False = ts.intern(&Term{op: OpConst, sort: BoolSort, val: 0})
	return ts
}

func (ts *TermStore) intern(t *Term) *Term {
	var sb strings.Builder
	sb.WriteString(strconv.Itoa(int(t.op)))
	sb.WriteByte('|')
	if t.sort.Bool {
		sb.WriteByte('B')
	} else {
		sb.WriteString(strconv.Itoa(t.sort.W))
	}
	sb.WriteByte('|')
	for _, a := range t.args {
		sb.WriteString(strconv.Itoa(a.id))
		sb.WriteByte(',')
	}
	sb.WriteByte('|')
	sb.WriteString(strconv.FormatUint(t.val, 16))
	sb.WriteByte('|')
	sb.WriteString(t.name)
	sb.WriteByte('|')
	sb.WriteString(strconv.Itoa(t.hi))
	sb.WriteByte(',')
	sb.WriteString(strconv.Itoa(t.lo))
	k := sb.String()
	if old, ok := ts.tab[k]; ok {
		return old
	}
	t.id = len(ts.terms)
	ts.terms = append(ts.terms, t)
	ts.tab[k] = t
	if t.op == OpVar {
		ts.vars = append(ts.vars, t)
	}
	return t
}

func mask(w int) uint64 {
	if w >= 64 {
		return ^uint64(0)
	}
	return (uint64(1) << uint(w)) - 1
}

func signed(v uint64, w int) int64 {
	if w >= 64 {
		return int64(v)
	}
	if v&(uint64(1)<<uint(w-1)) != 0 {
		return int64(v | ^mask(w))
	}
	return int64(v)
}

func (t *Term) IsConst() bool { return t.op == OpConst }
func (t *Term) IsTrue() bool  { return t == TS.True }
func (t *Term) IsFalse() bool { return t == TS.False }
func (t *Term) Int() int64    { return signed(t.val, t.sort.W) }

func Bool(b bool) *Term {
	if b {
		return TS.True
	}
	return TS.False
}

func Const(w int, v uint64) *Term {
	t := TS.intern(&Term{op: OpConst, sort: BV(w), val: v & mask(w)})
	if t.cases == nil {
		t.cases = []kcase{{t.val, TS.True}}
	}
	return t
}

func ConstI(w int, v int64) *Term { return Const(w, uint64(v)) }

func Var(name string, s Sort) *Term {
	return TS.intern(&Term{op: OpVar, sort: s, name: name})
}

func UF(name string, ret Sort, args ...*Term) *Term {
	if _, ok := TS.ufs[name]; !ok {
		var as []string
		for _, a := range args {
			as = append(as, a.sort.String())
		}
		TS.ufs[name] = fmt.Sprintf("(declare-fun %s (%s) %s)", name, strings.Join(as, " "), ret.String())
	}
	return TS.intern(&Term{op: OpUF, sort: ret, name: name, args: args})
}

func mk(op Op, s Sort, args ...*Term) *Term {
	return TS.intern(&Term{op: op, sort: s, args: args})
}

func Not(a *Term) *Term {
	if a.IsConst() {
		return Bool(a.val == 0)
	}
	if a.op == OpNot {
		return a.args[0]
	}
	return mk(OpNot, BoolSort, a)
}

func isNeg(a, b *Term) bool {
	return (a.op == OpNot && a.args[0] == b) || (b.op == OpNot && b.args[0] == a)
}

func hasID(sorted []*Term, id int) bool {
	lo, hi := 0, len(sorted)
	for lo < hi {
		mid := (lo + hi) / 2
		if sorted[mid].id < id {
			lo = mid + 1
		} else {
			hi = mid
		}
	}
	return lo < len(sorted) && sorted[lo].id == id
}

func nary(op Op, in []*Term) *Term {
	if len(in) == 2 {
		k := [3]int{int(op), in[0].id, in[1].id}
		if in[0].id > in[1].id {
			k = [3]int{int(op), in[1].id, in[0].id}
		}
		if r, ok := TS.bin[k]; ok {
			return r
		}
		r := nary0(op, in)
		TS.bin[k] = r
		return r
	}
	return nary0(op, in)
}

func nary0(op Op, in []*Term) *Term {
	unit, zero := TS.True, TS.False
	if op == OpOr {
		unit, zero = TS.False, TS.True
	}
	// fast path: and(x, y) with nothing to flatten
	if len(in) == 2 {
		a, b := in[0], in[1]
		if a == zero || b == zero {
			return zero
		}
		if a == unit {
			return b
		}
		if b == unit {
			return a
		}
		if a == b {
			return a
		}
	}
	n := 0
	for _, t := range in {
		if t.op == op {
			n += len(t.args)
		} else {
			n++
		}
	}
	out := make([]*Term, 0, n)
	for _, t := range in {
		if t == unit {
			continue
		}
		if t == zero {
			return zero
		}
		if t.op == op {
			out = append(out, t.args...) // children are already flat
		} else {
			out = append(out, t)
		}
	}
	if len(out) == 0 {
		return unit
	}
	sort.Slice(out, func(i, j int) bool { return out[i].id < out[j].id })
	// dedupe
	w := 1
	for i := 1; i < len(out); i++ {
		if out[i] != out[w-1] {
			out[w] = out[i]
			w++
		}
	}
	out = out[:w]
	for _, t := range out {
		if t.op == OpNot && hasID(out, t.args[0].id) {
			return zero
		}
	}
	if op == OpAnd && len(out) <= 512 {
		// a and b and not(a and c)  ->  a and b and not c
		for i, t := range out {
			if t.op != OpNot || t.args[0].op != OpAnd {
				continue
			}
			inner := t.args[0].args
			var rest []*Term
			for _, x := range inner {
				if !hasID(out, x.id) {
					rest = append(rest, x)
				}
			}
			if len(rest) == len(inner) {
				continue
			}
			if len(rest) == 0 {
				return zero
			}
			repl := Not(And(rest...))
			nw := make([]*Term, 0, len(out))
			nw = append(nw, out[:i]...)
			nw = append(nw, out[i+1:]...)
			nw = append(nw, repl)
			return nary0(op, nw)
		}
	}
	if len(out) == 1 {
		return out[0]
	}
	if op == OpOr && len(out) <= 24 {
		if r := factorOr(out); r != nil {
			return r
		}
	}
	return mk(op, BoolSort, out...)
}

// factorOr merges two disjuncts that are conjunctions differing in exactly one
// complementary literal: (A and c) or (A and not c) = A.  Path guards of join
// blocks have exactly this shape.
func factorOr(out []*Term) *Term {
	lits := func(t *Term) []*Term {
		if t.op == OpAnd {
			return t.args
		}
		return []*Term{t}
	}
	for i := 0; i < len(out); i++ {
		for j := i + 1; j < len(out); j++ {
			a, b := lits(out[i]), lits(out[j])
			if len(a) != len(b) {
				// absorption: A or (A and c) = A
				small, big := a, b
				if len(a) > len(b) {
					small, big = b, a
				}
				if subset(small, big) {
					rest := make([]*Term, 0, len(out)-1)
					for k, t := range out {
						if (len(a) > len(b) && k == i) || (len(a) < len(b) && k == j) {
							continue
						}
						rest = append(rest, t)
					}
					return Or(rest...)
				}
				continue
			}
			// both sorted by id; find the single differing position
			var da, db *Term
			ia, ib, nd := 0, 0, 0
			for ia < len(a) && ib < len(b) {
				if a[ia] == b[ib] {
					ia++
					ib++
				} else if a[ia].id < b[ib].id {
					da = a[ia]
					ia++
					nd++
				} else {
					db = b[ib]
					ib++
					nd++
				}
				if nd > 2 {
					break
				}
			}
			for ; ia < len(a); ia++ {
				da = a[ia]
				nd++
			}
			for ; ib < len(b); ib++ {
				db = b[ib]
				nd++
			}
			if nd == 2 && da != nil && db != nil && isNeg(da, db) {
				common := make([]*Term, 0, len(a))
				for _, x := range a {
					if x != da {
						common = append(common, x)
					}
				}
				rest := []*Term{And(common...)}
				for k, t := range out {
					if k != i && k != j {
						rest = append(rest, t)
					}
				}
				return Or(rest...)
			}
		}
	}
	return nil
}

func conjuncts(t *Term) []*Term {
	if t.op == OpAnd {
		return t.args
	}
	return []*Term{t}
}

// reduceGuard drops from c the conjuncts already guaranteed by born (the
// condition under which the written object exists at all).
func reduceGuard(c, born *Term) *Term {
	if born == nil || born.IsTrue() || c.IsFalse() {
		return c
	}
	if c == born {
		return TS.True
	}
	bs := conjuncts(born)
	cs := conjuncts(c)
	have := map[int]bool{}
	for _, x := range cs {
		have[x.id] = true
	}
	drop := map[int]bool{}
	for _, b := range bs {
		if !have[b.id] {
			return c
		}
		drop[b.id] = true
	}
	var rest []*Term
	for _, x := range cs {
		if !drop[x.id] {
			rest = append(rest, x)
		}
	}
	return And(rest...)
}

func subset(small, big []*Term) bool {
	i := 0
	for _, x := range big {
		if i < len(small) && small[i] == x {
			i++
		}
	}
	return i == len(small)
}

func And(in ...*Term) *Term { return nary(OpAnd, in) }
func Or(in ...*Term) *Term  { return nary(OpOr, in) }
func Implies(a, b *Term) *Term {
	return Or(Not(a), b)
}


func Ite(c, a, b *Term) *Term {
	if c.IsConst() {
		if c.val != 0 {
			return a
		}
		return b
	}
	if a == b {
		return a
	}
	if c.op == OpNot {
		return Ite(c.args[0], b, a)
	}
	if a.sort.Bool {
		switch {
		case a.IsTrue() && b.IsFalse():
			return c
		case a.IsFalse() && b.IsTrue():
			return Not(c)
		case a.IsTrue():
			return Or(c, b)
		case a.IsFalse():
			return And(Not(c), b)
		case b.IsTrue():
			return Or(Not(c), a)
		case b.IsFalse():
			return And(c, a)
		}
	}
	if a.cases != nil && b.cases != nil && len(a.cases)+len(b.cases) <= 2*maxCases {
		m := map[uint64]*Term{}
		nc := Not(c)
		for _, x := range a.cases {
			addCase(m, x.k, And(c, x.c))
		}
		for _, x := range b.cases {
			addCase(m, x.k, And(nc, x.c))
		}
		if len(m) <= maxCases {
			return mkCases(a.sort.W, m)
		}
	}
	if a.op == OpIte && a.args[0] == c {
		a = a.args[1]
	}
	if b.op == OpIte && b.args[0] == c {
		b = b.args[2]
	}
	if a == b {
		return a
	}
	// ite(c, x, ite(d, x, y)) -> ite(c or d, x, y)
	if b.op == OpIte && b.args[1] == a {
		return Ite(Or(c, b.args[0]), a, b.args[2])
	}
	return TS.intern(&Term{op: OpIte, sort: a.sort, args: []*Term{c, a, b}})
}

// lift1 maps a function over the values of a case term.
func lift1(a *Term, w int, f func(k uint64) uint64) *Term {
	m := map[uint64]*Term{}
	for _, x := range a.cases {
		addCase(m, f(x.k)&mask(w), x.c)
	}
	return mkCases(w, m)
}

// lift2 maps a binary function over the value pairs of two case terms.
func lift2(a, b *Term, w int, f func(x, y uint64) uint64) *Term {
	m := map[uint64]*Term{}
	for _, x := range a.cases {
		for _, y := range b.cases {
			addCase(m, f(x.k, y.k)&mask(w), And(x.c, y.c))
		}
	}
	return mkCases(w, m)
}

// liftPred: the disjunction of the conditions of the pairs satisfying p.
func liftPred(a, b *Term, p func(x, y uint64) bool) *Term {
	var yes, no []*Term
	for _, x := range a.cases {
		for _, y := range b.cases {
			c := And(x.c, y.c)
			if c.IsFalse() {
				continue
			}
			if p(x.k, y.k) {
				yes = append(yes, c)
			} else {
				no = append(no, c)
			}
		}
	}
	if len(no) == 0 {
		return TS.True
	}
	if len(yes) == 0 {
		return TS.False
	}
	if len(no) < len(yes) {
		return Not(Or(no...))
	}
	return Or(yes...)
}

func canLift(a, b *Term) bool {
	return a.cases != nil && b.cases != nil && len(a.cases)*len(b.cases) <= 4*maxCases && (len(a.cases) > 1 || len(b.cases) > 1)
}

func isCase(a *Term) bool { return a.cases != nil && len(a.cases) > 1 }

func Eq(a, b *Term) *Term {
	if a == b {
		return TS.True
	}
	if a.sort != b.sort {
		panic(fmt.Sprintf("Eq sort mismatch %v %v", a.sort, b.sort))
	}
	if a.IsConst() && b.IsConst() {
		return Bool(a.val == b.val)
	}
	if a.sort.Bool {
		if a.IsConst() {
			a, b = b, a
		}
		if b.IsTrue() {
			return a
		}
		if b.IsFalse() {
			return Not(a)
		}
		if isNeg(a, b) {
			return TS.False
		}
	}
	if canLift(a, b) {
		return liftPred(a, b, func(x, y uint64) bool { return x == y })
	}
	// eq(ite(c,x,y), k) with k const and one branch a different constant
	if b.IsConst() && a.op == OpIte {
		x, y := a.args[1], a.args[2]
		if x.IsConst() && x != b {
			return And(Not(a.args[0]), Eq(y, b))
		}
		if y.IsConst() && y != b {
			return And(a.args[0], Eq(x, b))
		}
		if x == b {
			return Or(a.args[0], Eq(y, b))
		}
		if y == b {
			return Or(Not(a.args[0]), Eq(x, b))
		}
	}
	if a.IsConst() && b.op == OpIte {
		return Eq(b, a)
	}
	// eq(x + c1, c2) -> eq(x, c2-c1)
	if b.IsConst() && a.op == OpAdd && a.args[1].IsConst() {
		return Eq(a.args[0], Const(a.sort.W, b.val-a.args[1].val))
	}
	if a.id > b.id {
		a, b = b, a
	}
	return mk(OpEq, BoolSort, a, b)
}

func foldBin(op Op, w int, x, y uint64) (uint64, bool) {
	sx, sy := signed(x, w), signed(y, w)
	switch op {
	case OpAdd:
		return x + y, true
	case OpSub:
		return x - y, true
	case OpMul:
		return x * y, true
	case OpSDiv:
		if y == 0 {
			return 0, false
		}
		if sy == -1 {
			return uint64(-sx), true
		}
		return uint64(sx / sy), true
	case OpSRem:
		if y == 0 {
			return 0, false
		}
		if sy == -1 {
			return 0, true
		}
		return uint64(sx % sy), true
	case OpUDiv:
		if y == 0 {
			return 0, false
		}
		return x / y, true
	case OpURem:
		if y == 0 {
			return 0, false
		}
		return x % y, true
	case OpBAnd:
		return x & y, true
	case OpBOr:
		return x | y, true
	case OpBXor:
		return x ^ y, true
	case OpShl:
		if y >= uint64(w) {
			return 0, true
		}
		return x << y, true
	case OpLshr:
		if y >= uint64(w) {
			return 0, true
		}
		return x >> y, true
	case OpAshr:
		if y >= uint64(w) {
			if sx < 0 {
				return ^uint64(0), true
			}
			return 0, true
		}
		return uint64(sx >> y), true
	}
	return 0, false
}

func BinOp(op Op, a, b *Term) *Term {
	if a.sort != b.sort {
		panic(fmt.Sprintf("BinOp %v sort mismatch %v %v", opNames[op], a.sort, b.sort))
	}
	w := a.sort.W
	if a.IsConst() && b.IsConst() {
		if v, ok := foldBin(op, w, a.val, b.val); ok {
			return Const(w, v)
		}
	}
	if canLift(a, b) {
		ok := true
		if op == OpSDiv || op == OpSRem || op == OpUDiv || op == OpURem {
			// only lift when no divisor value is zero
			for _, y := range b.cases {
				if y.k == 0 {
					ok = false
				}
			}
		}
		if ok {
			return lift2(a, b, w, func(x, y uint64) uint64 {
				v, _ := foldBin(op, w, x, y)
				return v
			})
		}
	}
	switch op {
	case OpAdd:
		if a.IsConst() {
			a, b = b, a
		}
		if b.IsConst() {
			if b.val == 0 {
				return a
			}
			if a.op == OpAdd && a.args[1].IsConst() {
				return BinOp(OpAdd, a.args[0], Const(w, a.args[1].val+b.val))
			}
		}
	case OpSub:
		if b.IsConst() {
			return BinOp(OpAdd, a, Const(w, -b.val))
		}
		if a == b {
			return Const(w, 0)
		}
	case OpMul:
		if a.IsConst() {
			a, b = b, a
		}
		if b.IsConst() {
			if b.val == 0 {
				return b
			}
			if b.val == 1 {
				return a
			}
		}
	case OpBAnd:
		if a == b {
			return a
		}
	case OpBOr:
		if a == b {
			return a
		}
	}
	return mk(op, a.sort, a, b)
}

func Add(a, b *Term) *Term { return BinOp(OpAdd, a, b) }
func Sub(a, b *Term) *Term { return BinOp(OpSub, a, b) }

func Neg(a *Term) *Term {
	if a.IsConst() {
		return Const(a.sort.W, -a.val)
	}
	if isCase(a) {
		return lift1(a, a.sort.W, func(k uint64) uint64 { return -k })
	}
	return mk(OpNeg, a.sort, a)
}

func BNot(a *Term) *Term {
	if a.IsConst() {
		return Const(a.sort.W, ^a.val)
	}
	return mk(OpBNot, a.sort, a)
}

func Cmp(op Op, a, b *Term) *Term {
	if a.sort != b.sort {
		panic(fmt.Sprintf("Cmp %v sort mismatch %v %v", opNames[op], a.sort, b.sort))
	}
	w := a.sort.W
	if a.IsConst() && b.IsConst() {
		sx, sy := signed(a.val, w), signed(b.val, w)
		switch op {
		case OpSlt:
			return Bool(sx < sy)
		case OpSle:
			return Bool(sx <= sy)
		case OpUlt:
			return Bool(a.val < b.val)
		case OpUle:
			return Bool(a.val <= b.val)
		}
	}
	if a == b {
		return Bool(op == OpSle || op == OpUle)
	}
	if canLift(a, b) {
		return liftPred(a, b, func(x, y uint64) bool {
			sx, sy := signed(x, w), signed(y, w)
			switch op {
			case OpSlt:
				return sx < sy
			case OpSle:
				return sx <= sy
			case OpUlt:
				return x < y
			}
			return x <= y
		})
	}
	// (x + c1) < c2 style folding is not attempted: wrap-around makes it unsound in general.
	return mk(op, BoolSort, a, b)
}

func Slt(a, b *Term) *Term { return Cmp(OpSlt, a, b) }
func Sle(a, b *Term) *Term { return Cmp(OpSle, a, b) }
func Sgt(a, b *Term) *Term { return Cmp(OpSlt, b, a) }
func Sge(a, b *Term) *Term { return Cmp(OpSle, b, a) }

func Extract(hi, lo int, a *Term) *Term {
	w := hi - lo + 1
	if a.IsConst() {
		return Const(w, a.val>>uint(lo))
	}
	if lo == 0 && w == a.sort.W {
		return a
	}
	if isCase(a) {
		return lift1(a, w, func(k uint64) uint64 { return k >> uint(lo) })
	}
	return TS.intern(&Term{op: OpExtract, sort: BV(w), args: []*Term{a}, hi: hi, lo: lo})
}

func Zext(a *Term, w int) *Term {
	if w == a.sort.W {
		return a
	}
	if w < a.sort.W {
		return Extract(w-1, 0, a)
	}
	if a.IsConst() {
		return Const(w, a.val)
	}
	if isCase(a) {
		return lift1(a, w, func(k uint64) uint64 { return k })
	}
	return TS.intern(&Term{op: OpZext, sort: BV(w), args: []*Term{a}, hi: w - a.sort.W})
}

func Sext(a *Term, w int) *Term {
	if w == a.sort.W {
		return a
	}
	if w < a.sort.W {
		return Extract(w-1, 0, a)
	}
	if a.IsConst() {
		return Const(w, uint64(signed(a.val, a.sort.W)))
	}
	if isCase(a) {
		aw := a.sort.W
		return lift1(a, w, func(k uint64) uint64 { return uint64(signed(k, aw)) })
	}
	return TS.intern(&Term{op: OpSext, sort: BV(w), args: []*Term{a}, hi: w - a.sort.W})
}

// ---- printing ----

func (t *Term) ref() string {
	switch t.op {
	case OpConst:
		if t.sort.Bool {
			if t.val != 0 {
				return "true"
			}
			return "false"
		}
		return fmt.Sprintf("(_ bv%d %d)", t.val, t.sort.W)
	case OpVar:
		return t.name
	}
	return "t" + strconv.Itoa(t.id)
}

func (t *Term) body() string {
	var sb strings.Builder
	sb.WriteByte('(')
	switch t.op {
	case OpExtract:
		fmt.Fprintf(&sb, "(_ extract %d %d)", t.hi, t.lo)
	case OpZext:
		fmt.Fprintf(&sb, "(_ zero_extend %d)", t.hi)
	case OpSext:
		fmt.Fprintf(&sb, "(_ sign_extend %d)", t.hi)
	case OpUF:
		sb.WriteString(t.name)
	default:
		sb.WriteString(opNames[t.op])
	}
	for _, a := range t.args {
		sb.WriteByte(' ')
		sb.WriteString(a.ref())
	}
	sb.WriteByte(')')
	return sb.String()
}

// String renders a term fully expanded (debugging / samples only; may be large).
func (t *Term) String() string {
	return t.str(0)
}

func (t *Term) str(d int) string {
	if t.op == OpConst {
		if t.sort.Bool {
			return t.ref()
		}
		return strconv.FormatInt(t.Int(), 10)
	}
	if t.op == OpVar {
		return t.name
	}
	if d > 6 {
		return "…"
	}
	var parts []string
	for _, a := range t.args {
		parts = append(parts, a.str(d+1))
	}
	n := opNames[t.op]
	switch t.op {
	case OpExtract:
		n = fmt.Sprintf("extract[%d:%d]", t.hi, t.lo)
	case OpZext:
		n = "zext"
	case OpSext:
		n = "sext"
	case OpUF:
		n = t.name
	}
	return "(" + n + " " + strings.Join(parts, " ") + ")"
}

// Size counts distinct DAG nodes under t.
func (t *Term) Size() int {
	seen := map[int]bool{}
	var rec func(x *Term)
	rec = func(x *Term) {
		if seen[x.id] {
			return
		}
		seen[x.id] = true
		for _, a := range x.args {
			rec(a)
		}
	}
	rec(t)
	return len(seen)
}

// Eval evaluates t under a full assignment of variables (used by the conformance
// mode and to double check models).
func Eval(t *Term, env map[string]uint64, memo map[int]uint64) uint64 {
	if v, ok := memo[t.id]; ok {
		return v
	}
	var r uint64
	b := func(x bool) uint64 {
		if x {
			return 1
		}
		return 0
	}
	ev := func(i int) uint64 { return Eval(t.args[i], env, memo) }
	switch t.op {
	case OpConst:
		r = t.val
	case OpVar:
		r = env[t.name]
		if !t.sort.Bool {
			r &= mask(t.sort.W)
		}
	case OpNot:
		r = 1 - ev(0)
	case OpAnd:
		r = 1
		for i := range t.args {
			if ev(i) == 0 {
				r = 0
				break
			}
		}
	case OpOr:
		r = 0
		for i := range t.args {
			if ev(i) != 0 {
				r = 1
				break
			}
		}
	case OpIte:
		if ev(0) != 0 {
			r = ev(1)
		} else {
			r = ev(2)
		}
	case OpEq:
		r = b(ev(0) == ev(1))
	case OpNeg:
		r = (-ev(0)) & mask(t.sort.W)
	case OpBNot:
		r = (^ev(0)) & mask(t.sort.W)
	case OpSlt, OpSle, OpUlt, OpUle:
		w := t.args[0].sort.W
		x, y := ev(0), ev(1)
		switch t.op {
		case OpSlt:
			r = b(signed(x, w) < signed(y, w))
		case OpSle:
			r = b(signed(x, w) <= signed(y, w))
		case OpUlt:
			r = b(x < y)
		case OpUle:
			r = b(x <= y)
		}
	case OpExtract:
		r = (ev(0) >> uint(t.lo)) & mask(t.sort.W)
	case OpZext:
		r = ev(0)
	case OpSext:
		r = uint64(signed(ev(0), t.args[0].sort.W)) & mask(t.sort.W)
	case OpUF:
		panic("Eval: uninterpreted function " + t.name)
	default:
		w := t.sort.W
		x, y := ev(0), ev(1)
		v, ok := foldBin(t.op, w, x, y)
		if !ok {
			// SMT-LIB semantics of division by zero
			switch t.op {
			case OpUDiv:
				v = mask(w)
			case OpURem, OpSRem:
				v = x
			case OpSDiv:
				if signed(x, w) < 0 {
					v = 1
				} else {
					v = mask(w)
				}
			}
		}
		r = v & mask(w)
	}
	memo[t.id] = r
	return r
}
