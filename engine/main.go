package main

import (
	"encoding/json"
	"flag"
	"fmt"
	"os"
	"os/exec"
	"path/filepath"
	"runtime/pprof"
	"sort"
	"strings"
	"time"

	"golang.org/x/tools/go/packages"
	"golang.org/x/tools/go/ssa"
	"golang.org/x/tools/go/ssa/ssautil"
)

type Job struct {
	ID      string           `json:"id"`
	Pkg     string           `json:"pkg"`
	Harness string           `json:"harness"`
	Cfg     map[string]int64 `json:"cfg"`
	Unwind  int              `json:"unwind,omitempty"`
	Pin     map[string]uint64 `json:"pin,omitempty"` // conformance: concrete inputs
	Timeout int              `json:"timeout_s,omitempty"`
}

type JobResult struct {
	Job        Job               `json:"job"`
	Status     string            `json:"status"` // ok, not-encoded, error
	Error      string            `json:"error,omitempty"`
	VCs        []*VC             `json:"vcs"`
	Inputs     []InputDesc       `json:"inputs"`
	Strings    map[string]string `json:"strings"` // string-id -> text for input strings
	Encoded    map[string]int    `json:"encoded"`
	Stubs      map[string]int    `json:"stubs"`
	Loops      map[string]int    `json:"loops"`
	Blocks     int               `json:"blocks"`
	Edges      int               `json:"edges"`
	Instrs     int               `json:"instrs"`
	Terms      int               `json:"terms"`
	Queries    int               `json:"queries"`
	Feas       int               `json:"feasibility_queries"`
	Assumes    int               `json:"assumptions"`
	SolverMs   float64           `json:"solver_ms"`
	MaxQueryMs float64           `json:"max_query_ms"`
	WallMs     float64           `json:"wall_ms"`
	Solver     string            `json:"solver"`
	SolverErr  []string          `json:"solver_errors,omitempty"`
	Observes   []ObsOut          `json:"observes,omitempty"`
	Dropped    []string          `json:"dropped_harness_files,omitempty"`
	Pending    int               `json:"pending_go"`
}

type InputDesc struct {
	Name string `json:"name"`
	Kind string `json:"kind"`
}

type ObsOut struct {
	Name  string `json:"name"`
	Value string `json:"value"`
}

var repoDir = "/repo"
var verifDir = "/verif"

func overlay() map[string][]byte {
	ov := map[string][]byte{}
	add := func(real, virt string) {
		b, err := os.ReadFile(real)
		if err != nil {
			fmt.Fprintln(os.Stderr, "overlay:", err)
			os.Exit(2)
		}
		ov[virt] = b
	}
	// harness runtime
	rts, _ := filepath.Glob(filepath.Join(verifDir, "verifrt", "*.go"))
	for _, f := range rts {
		add(f, filepath.Join(repoDir, "internal", "verifrt", filepath.Base(f)))
	}
	// harnesses
	hroot := filepath.Join(verifDir, "harness")
	filepath.Walk(hroot, func(p string, info os.FileInfo, err error) error {
		if err != nil || info.IsDir() || !strings.HasSuffix(p, ".go") {
			return nil
		}
		rel, _ := filepath.Rel(hroot, p)
		dir := filepath.Dir(rel)
		if dir == "root" {
			dir = "."
		}
		add(p, filepath.Join(repoDir, dir, "zz_verif_"+filepath.Base(p)))
		return nil
	})
	// sequential models of dependencies
	for mod, files := range modelFiles() {
		dir := moduleDir(mod)
		if dir == "" {
			continue
		}
		for _, f := range files {
			add(f, filepath.Join(dir, filepath.Base(f)))
		}
	}
	return ov
}

func modelFiles() map[string][]string {
	res := map[string][]string{}
	root := filepath.Join(verifDir, "models")
	ents, _ := os.ReadDir(root)
	for _, e := range ents {
		if !e.IsDir() {
			continue
		}
		mod := "github.com/weedbox/" + e.Name()
		fs, _ := filepath.Glob(filepath.Join(root, e.Name(), "*.go"))
		res[mod] = fs
	}
	return res
}

var modDirCache = map[string]string{}

func moduleDir(mod string) string {
	if d, ok := modDirCache[mod]; ok {
		return d
	}
	cmd := exec.Command("go", "list", "-m", "-f", "{{.Dir}}", mod)
	cmd.Dir = repoDir
	cmd.Env = append(os.Environ(), "GOFLAGS=-mod=mod", "GOPROXY=off", "GOSUMDB=off", "GOTOOLCHAIN=local")
	out, err := cmd.Output()
	d := strings.TrimSpace(string(out))
	if err != nil {
		d = ""
	}
	modDirCache[mod] = d
	return d
}

// droppedHarness: harness files that do not compile against the current tree (a
// refactoring changed a signature they use) -> first compile error. Their harnesses are
// reported as unavailable; every other harness still runs.
var droppedHarness = map[string]string{}

func loadProgram() (*ssa.Program, map[string]*ssa.Package) {
	ov := overlay()
	var pkgs []*packages.Package
	for round := 0; ; round++ {
		cfg := &packages.Config{
			Mode: packages.NeedName | packages.NeedFiles | packages.NeedCompiledGoFiles | packages.NeedImports |
				packages.NeedDeps | packages.NeedTypes | packages.NeedSyntax | packages.NeedTypesInfo | packages.NeedTypesSizes | packages.NeedModule,
			Dir:     repoDir,
			Env:     append(os.Environ(), "GOFLAGS=-mod=mod", "GOPROXY=off", "GOSUMDB=off", "GOTOOLCHAIN=local"),
			Overlay: ov,
		}
		var err error
		pkgs, err = packages.Load(cfg, "./...", "github.com/weedbox/pokertable/internal/verifrt")
		if err != nil {
			fmt.Fprintln(os.Stderr, "load:", err)
			os.Exit(2)
		}
		bad := false
		drop := map[string]string{}
		packages.Visit(pkgs, nil, func(p *packages.Package) {
			for _, e := range p.Errors {
				if !strings.HasPrefix(p.PkgPath, "github.com/weedbox/pokertable") {
					continue
				}
				file := e.Pos
				if i := strings.Index(file, ":"); i >= 0 {
					file = file[:i]
				}
				if _, isOv := ov[file]; isOv && strings.HasPrefix(filepath.Base(file), "zz_verif_") {
					if _, seen := drop[file]; !seen {
						drop[file] = e.Error()
					}
					continue
				}
				fmt.Fprintln(os.Stderr, "package error:", e)
				bad = true
			}
		})
		if bad || (len(drop) > 0 && round >= 12) {
			for f, e := range drop {
				fmt.Fprintln(os.Stderr, "package error:", f, e)
			}
			os.Exit(2)
		}
		if len(drop) == 0 {
			break
		}
		for f, e := range drop {
			fmt.Fprintf(os.Stderr, "[symgo] harness file %s does not compile against this tree and is dropped: %s\n", filepath.Base(f), e)
			droppedHarness[f] = e
			delete(ov, f)
		}
	}
	prog, spkgs := ssautil.AllPackages(pkgs, ssa.InstantiateGenerics)
	byPath := map[string]*ssa.Package{}
	for _, p := range spkgs {
		if p != nil {
			byPath[p.Pkg.Path()] = p
		}
	}
	for _, p := range prog.AllPackages() {
		byPath[p.Pkg.Path()] = p
		path := p.Pkg.Path()
		if strings.HasPrefix(path, "github.com/weedbox/") || strings.HasPrefix(path, "github.com/thoas/") || path == "errors" {
			p.Build()
		}
	}
	return prog, byPath
}

func allowInit(p *ssa.Package) bool {
	path := p.Pkg.Path()
	if strings.HasPrefix(path, "github.com/weedbox/pokerface/combination") {
		return false
	}
	return strings.HasPrefix(path, "github.com/weedbox/")
}

func runJob(prog *ssa.Program, pkgs map[string]*ssa.Package, job Job, solverName string, timeoutMs int, kfOpen map[string]bool, trace bool, smtLog string) (res *JobResult) {
	start := time.Now()
	res = &JobResult{Job: job, Status: "ok", Solver: solverName}
	for f := range droppedHarness {
		res.Dropped = append(res.Dropped, f)
	}
	sort.Strings(res.Dropped)
	TS = NewTermStore()
	solver, err := NewSolver(solverName, timeoutMs, smtLog)
	if err != nil {
		res.Status = "error"
		res.Error = err.Error()
		return
	}
	defer solver.Close()
	m := NewMachine(prog, solver)
	m.cfg = job.Cfg
	m.harness = job.Harness
	m.allowInit = allowInit
	m.openKF = kfOpen
	m.pinned = job.Pin
	m.trace = trace
	if job.Unwind > 0 {
		m.unwind = job.Unwind
	}
	if job.Timeout > 0 {
		m.deadline = start.Add(time.Duration(job.Timeout) * time.Second)
	}
	finish := func() {
		res.VCs = m.vcs
		for _, iv := range m.inputs {
			res.Inputs = append(res.Inputs, InputDesc{iv.Name, iv.Kind})
		}
		res.Strings = map[string]string{}
		for i, s := range m.strs {
			res.Strings[fmt.Sprint(i)] = s
		}
		res.Encoded = m.encoded
		res.Stubs = m.stubsUsed
		res.Loops = m.loopsUnw
		res.Blocks, res.Edges, res.Instrs = m.blocksRun, m.edgesRun, m.instrsRun
		res.Terms = len(TS.terms)
		res.Queries = solver.Queries
		res.Feas = m.feasN
		res.Assumes = m.assumeN
		res.SolverMs = float64(solver.Time.Microseconds()) / 1000
		res.MaxQueryMs = float64(solver.MaxQuery.Microseconds()) / 1000
		res.SolverErr = solver.Errors
		res.Pending = len(m.pendingGo)
		for _, o := range m.observes {
			res.Observes = append(res.Observes, ObsOut{o.Name, m.render(o.V)})
		}
		res.WallMs = float64(time.Since(start).Microseconds()) / 1000
	}
	defer func() {
		if r := recover(); r != nil {
			if ne, ok := r.(*NotEncoded); ok {
				res.Status = "not-encoded"
				res.Error = ne.Msg
				if len(m.stack) > 0 {
					var names []string
					for _, f := range m.stack {
						names = append(names, f.Name())
					}
					res.Error += " [stack: " + strings.Join(names, " > ") + "]"
				}
			} else {
				res.Status = "error"
				res.Error = fmt.Sprint(r)
				if trace {
					panic(r)
				}
			}
		}
		finish()
	}()
	p := pkgs[job.Pkg]
	if p == nil {
		panic(notEncoded("package %s not loaded", job.Pkg))
	}
	fn := p.Func(job.Harness)
	if fn == nil {
		if len(droppedHarness) > 0 {
			msgs := []string{}
			for f, e := range droppedHarness {
				msgs = append(msgs, filepath.Base(f)+": "+e)
			}
			sort.Strings(msgs)
			panic(notEncoded("harness %s unavailable: its file does not compile against this tree (%s)", job.Harness, strings.Join(msgs, "; ")))
		}
		panic(notEncoded("harness %s not found in %s", job.Harness, job.Pkg))
	}
	m.runInit(p)
	m.callFn(fn, nil, nil, TS.True, nil)
	m.flushNP()
	return
}

// render prints a value for conformance comparison.
func (m *Machine) render(v Value) string {
	switch x := v.(type) {
	case *Term:
		if x.IsConst() {
			if x.sort.Bool {
				return fmt.Sprint(x.val != 0)
			}
			if x.sort.W == strW && int(x.val) < len(m.strs) {
				return fmt.Sprintf("%q", m.strs[x.val])
			}
			return fmt.Sprint(x.Int())
		}
		return "sym:" + x.String()
	case nil:
		return "nil"
	}
	return fmt.Sprintf("%T", v)
}

func main() {
	// /verif is wherever this binary lives (<verif>/bin/symgo), unless VERIF_DIR says otherwise
	if d := os.Getenv("VERIF_DIR"); d != "" {
		verifDir = d
	} else if exe, err := os.Executable(); err == nil {
		if d := filepath.Dir(filepath.Dir(exe)); fileExists(filepath.Join(d, "harness")) {
			verifDir = d
		}
	}
	if len(os.Args) < 2 {
		fmt.Fprintln(os.Stderr, "usage: symgo run|selftest ...")
		os.Exit(2)
	}
	switch os.Args[1] {
	case "run":
		cmdRun(os.Args[2:])
	case "selftest":
		cmdSelftest()
	default:
		fmt.Fprintln(os.Stderr, "unknown command", os.Args[1])
		os.Exit(2)
	}
}

func cmdRun(args []string) {
	fs := flag.NewFlagSet("run", flag.ExitOnError)
	jobsFile := fs.String("jobs", "", "JSON file with a list of jobs")
	pkg := fs.String("pkg", "", "package import path (single job)")
	harness := fs.String("harness", "", "harness function (single job)")
	cfgS := fs.String("cfg", "", "k=v,k=v (single job)")
	out := fs.String("out", "", "result file (default stdout)")
	solver := fs.String("solver", "z3", "z3 | z3-new | cvc5")
	timeout := fs.Int("timeout", 120000, "per query timeout (ms)")
	shard := fs.String("shard", "0/1", "i/n: run jobs with index%n==i")
	kfFile := fs.String("kf", "", "known findings file (default <verif>/known_findings.json)")
	trace := fs.Bool("trace", false, "trace calls")
	smtLog := fs.String("smtlog", "", "write the SMT script of the (last) job here")
	unwind := fs.Int("unwind", 0, "loop unwinding bound")
	repo := fs.String("repo", "/repo", "repository under test")
	deadline := fs.Int("deadline", 0, "executor deadline in seconds (single job)")
	cpuprof := fs.String("cpuprofile", "", "write a CPU profile")
	fs.Parse(args)
	if *cpuprof != "" {
		f, _ := os.Create(*cpuprof)
		pprof.StartCPUProfile(f)
		defer pprof.StopCPUProfile()
	}
	repoDir = *repo
	var jobs []Job
	if *jobsFile != "" {
		b, err := os.ReadFile(*jobsFile)
		if err != nil {
			fmt.Fprintln(os.Stderr, err)
			os.Exit(2)
		}
		if err := json.Unmarshal(b, &jobs); err != nil {
			fmt.Fprintln(os.Stderr, err)
			os.Exit(2)
		}
	} else {
		j := Job{ID: *harness, Pkg: *pkg, Harness: *harness, Cfg: map[string]int64{}, Unwind: *unwind, Timeout: *deadline}
		for _, kv := range strings.Split(*cfgS, ",") {
			if kv == "" {
				continue
			}
			var k string
			var v int64
			parts := strings.SplitN(kv, "=", 2)
			k = parts[0]
			fmt.Sscan(parts[1], &v)
			j.Cfg[k] = v
		}
		jobs = []Job{j}
	}
	var si, sn int
	fmt.Sscanf(*shard, "%d/%d", &si, &sn)
	if sn <= 0 {
		sn = 1
	}
	if *kfFile == "" {
		*kfFile = filepath.Join(verifDir, "known_findings.json")
	}
	kfOpen := loadOpenKF(*kfFile)
	prog, pkgs := loadProgram()
	var results []*JobResult
	for i, j := range jobs {
		if i%sn != si {
			continue
		}
		r := runJob(prog, pkgs, j, *solver, *timeout, kfOpen, *trace, *smtLog)
		results = append(results, r)
		fmt.Fprintf(os.Stderr, "[symgo] %s %v: %s vcs=%d queries=%d wall=%.0fms %s\n", j.Harness, cfgString(j.Cfg), r.Status, len(r.VCs), r.Queries, r.WallMs, r.Error)
	}
	b, _ := json.MarshalIndent(results, "", " ")
	if *out == "" {
		os.Stdout.Write(b)
	} else {
		os.WriteFile(*out, b, 0644)
	}
}

func cfgString(c map[string]int64) string {
	var ks []string
	for k := range c {
		ks = append(ks, k)
	}
	sort.Strings(ks)
	var ps []string
	for _, k := range ks {
		ps = append(ps, fmt.Sprintf("%s=%d", k, c[k]))
	}
	return strings.Join(ps, ",")
}

type KFEntry struct {
	ID       string `json:"id"`
	Property string `json:"property"`
	Status   string `json:"status"` // open | fixed
	What     string `json:"what_fails"`
}

func loadOpenKF(path string) map[string]bool {
	res := map[string]bool{}
	b, err := os.ReadFile(path)
	if err != nil {
		return res
	}
	var doc struct {
		Findings []KFEntry `json:"findings"`
	}
	if json.Unmarshal(b, &doc) != nil {
		return res
	}
	for _, e := range doc.Findings {
		if e.Status == "open" {
			res[e.ID] = true
		}
	}
	return res
}

func fileExists(p string) bool {
	_, err := os.Stat(p)
	return err == nil
}

func cmdSelftest() {
	fmt.Println("selftest: see selftest.go")
}
