package main

import (
	"go/types"

	"golang.org/x/tools/go/ssa"
)

func joinResults(res Value, g *Term, r Value) Value {
	if r == nil {
		return res
	}
	if res == nil {
		return r
	}
	return mergeValue(g, r, res)
}

func (m *Machine) lookupMethod(t types.Type, meth *types.Func) *ssa.Function {
	sel := m.prog.MethodSets.MethodSet(t).Lookup(meth.Pkg(), meth.Name())
	if sel == nil {
		panic(notEncoded("method %s not found on %v", meth.Name(), t))
	}
	fn := m.prog.MethodValue(sel)
	if fn == nil {
		panic(notEncoded("no body for method %s of %v", meth.Name(), t))
	}
	return fn
}

// call evaluates a call instruction under guard g.
func (m *Machine) call(f *Frame, cc *ssa.CallCommon, g *Term, site ssa.Instruction) Value {
	return m.prepareCall(f, cc, site)(g)
}

// prepareCall evaluates callee and arguments now and returns a thunk running
// the call under a guard given later (used directly and by defer).
func (m *Machine) prepareCall(f *Frame, cc *ssa.CallCommon, site ssa.Instruction) func(g *Term) Value {
	var args []Value
	for _, a := range cc.Args {
		if _, ok := a.(*ssa.Builtin); ok {
			panic(notEncoded("builtin as argument"))
		}
		args = append(args, f.get(a))
	}
	if cc.IsInvoke() {
		recv := f.get(cc.Value).(*IfaceV)
		return func(g *Term) Value {
			m.noPanic(g, isNilValue(recv), "method call on nil interface ("+cc.Method.Name()+")", site)
			var res Value
			for i := len(recv.Alts) - 1; i >= 0; i-- {
				a := recv.Alts[i]
				cg := And(g, a.G)
				if cg.IsFalse() {
					continue
				}
				fn := m.lookupMethod(a.T, cc.Method)
				r := m.callFn(fn, nil, append([]Value{a.V}, args...), cg, site)
				res = joinResults(res, a.G, r)
			}
			return res
		}
	}
	switch v := cc.Value.(type) {
	case *ssa.Builtin:
		var ats []types.Type
		for _, a := range cc.Args {
			ats = append(ats, a.Type())
		}
		return func(g *Term) Value { return m.builtin(v.Name(), args, ats, g, site) }
	case *ssa.Function:
		return func(g *Term) Value { return m.callFn(v, nil, args, g, site) }
	}
	fv, ok := f.get(cc.Value).(*FuncV)
	if !ok {
		panic(notEncoded("call of %T", f.get(cc.Value)))
	}
	return func(g *Term) Value { return m.callFuncV(fv, args, g, site) }
}

func (m *Machine) callFuncV(fv *FuncV, args []Value, g *Term, site ssa.Instruction) Value {
	m.noPanic(g, isNilValue(fv), "call of nil func", site)
	var res Value
	for i := len(fv.Alts) - 1; i >= 0; i-- {
		a := fv.Alts[i]
		cg := And(g, a.G)
		if cg.IsFalse() {
			continue
		}
		var r Value
		if a.Builtin != "" {
			r = m.callBuiltinClosure(&a, args, cg, site)
		} else {
			r = m.callFn(a.Fn, a.Bind, args, cg, site)
		}
		res = joinResults(res, a.G, r)
	}
	return res
}

func (m *Machine) recordGo(f *Frame, cc *ssa.CallCommon, site ssa.Instruction) {
	var args []Value
	for _, a := range cc.Args {
		args = append(args, f.get(a))
	}
	m.stubsUsed["go statement recorded as pending task"]++
	if cc.IsInvoke() {
		recv := f.get(cc.Value).(*IfaceV)
		for _, a := range recv.Alts {
			fn := m.lookupMethod(a.T, cc.Method)
			m.pendingGo = append(m.pendingGo, GoTask{G: And(f.g, a.G), Fn: fn, Args: append([]Value{a.V}, args...)})
		}
		return
	}
	switch v := cc.Value.(type) {
	case *ssa.Function:
		m.pendingGo = append(m.pendingGo, GoTask{G: f.g, Fn: v, Args: args})
		return
	case *ssa.Builtin:
		panic(notEncoded("go builtin"))
	}
	fv := f.get(cc.Value).(*FuncV)
	for i := range fv.Alts {
		a := fv.Alts[i]
		if a.Builtin != "" {
			m.pendingGo = append(m.pendingGo, GoTask{G: And(f.g, a.G), Alt: &a, Args: args})
			continue
		}
		m.pendingGo = append(m.pendingGo, GoTask{G: And(f.g, a.G), Fn: a.Fn, Bind: a.Bind, Args: args})
	}
}

func (m *Machine) runGo(t GoTask, g *Term) {
	cg := And(g, t.G)
	if t.Alt != nil {
		m.callBuiltinClosure(t.Alt, t.Args, cg, nil)
		return
	}
	m.callFn(t.Fn, t.Bind, t.Args, cg, nil)
}

func (m *Machine) builtin(name string, args []Value, ats []types.Type, g *Term, site ssa.Instruction) Value {
	switch name {
	case "len":
		switch v := args[0].(type) {
		case *SliceV:
			return v.Len
		case *MapV:
			return m.mapLen(v)
		case *Term:
			return m.strLen(v)
		case *ArrayV:
			return ConstI(64, int64(len(v.E)))
		case *ChanV:
			n := Const(64, 0)
			for _, a := range v.Alts {
				for _, it := range a.Obj.val.(*ChanContent).Queue {
					n = Add(n, Ite(And(a.G, it.G), Const(64, 1), Const(64, 0)))
				}
			}
			return n
		}
	case "cap":
		switch v := args[0].(type) {
		case *SliceV:
			var res *Term = Const(64, 0)
			for _, a := range v.Alts {
				res = Ite(a.G, ConstI(64, int64(a.room())), res)
			}
			return res
		}
	case "append":
		s := args[0].(*SliceV)
		et := ats[0].Underlying().(*types.Slice).Elem()
		switch v := args[1].(type) {
		case *SliceV:
			n := m.sliceCapMax(v)
			if l, ok := concreteInt(v.Len); ok {
				n = int(l)
			}
			vals := make([]Value, n)
			for i := range vals {
				vals[i] = m.sliceElem(v, i)
				if vals[i] == nil {
					vals[i] = m.zero(et)
				}
			}
			return m.appendValues(s, vals, v.Len, et, g)
		}
	case "copy":
		dst := args[0].(*SliceV)
		src, ok := args[1].(*SliceV)
		if !ok {
			break
		}
		et := ats[0].Underlying().(*types.Slice).Elem()
		n := m.sliceCapMax(src)
		if l, ok := concreteInt(src.Len); ok {
			n = int(l)
		}
		cnt := Ite(Slt(dst.Len, src.Len), dst.Len, src.Len)
		for i := 0; i < n; i++ {
			v := m.sliceElem(src, i)
			if v == nil {
				v = m.zero(et)
			}
			c := And(g, Slt(ConstI(64, int64(i)), cnt))
			for _, a := range dst.Alts {
				arr := a.Obj.val.(*ArrayV)
				if a.Off+i >= len(arr.E) {
					continue
				}
				cc := And(c, a.G)
				if cc.IsFalse() {
					continue
				}
				a.Obj.val = setPath(a.Obj.val, []int{a.Off + i}, func(old Value) Value { return mergeValue(cc, v, old) })
			}
		}
		return cnt
	case "delete":
		m.mapDelete(args[0].(*MapV), args[1], g)
		return nil
	case "close":
		ch := args[0].(*ChanV)
		for _, a := range ch.Alts {
			c := a.Obj.val.(*ChanContent)
			cg := And(g, a.G)
			m.noPanic(cg, c.Closed, "close of closed channel", site)
			a.Obj.val = &ChanContent{Queue: c.Queue, Closed: Or(c.Closed, cg)}
		}
		return nil
	case "print", "println":
		return nil
	case "ssa:wrapnilchk":
		return args[0]
	case "min", "max":
		x, y := args[0].(*Term), args[1].(*Term)
		lt := Cmp(OpSlt, x, y)
		if isUnsigned(ats[0]) {
			lt = Cmp(OpUlt, x, y)
		}
		if name == "min" {
			return Ite(lt, x, y)
		}
		return Ite(lt, y, x)
	}
	panic(notEncoded("builtin %s on %T", name, args[0]))
}

// strLen: literal lengths are known; for symbolic ids only emptiness is modelled.
func (m *Machine) strLen(s *Term) *Term {
	if s.cases != nil {
		return lift1(s, 64, func(k uint64) uint64 {
			if int(k) < len(m.strs) {
				return uint64(len(m.strs[k]))
			}
			return 1
		})
	}
	u := UF("strlen", BV(64), s)
	m.assume(Sgt(u, Const(64, 0)))
	return Ite(Eq(s, Const(strW, 0)), Const(64, 0), u)
}
