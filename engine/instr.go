package main

import (
	"fmt"
	"go/token"
	"go/types"
	"math"

	"golang.org/x/tools/go/ssa"
)

func (f *Frame) exec(ins ssa.Instruction) {
	m := f.m
	switch x := ins.(type) {
	case *ssa.DebugRef:
	case *ssa.Alloc:
		et := x.Type().(*types.Pointer).Elem()
		o := m.newObject(m.zero(et), et, x.Comment)
		f.env[x] = ptrTo(o)
	case *ssa.Store:
		m.store(f.get(x.Addr).(*PtrV), f.get(x.Val), f.g, x)
	case *ssa.UnOp:
		f.env[x] = f.unop(x)
	case *ssa.BinOp:
		f.env[x] = m.binop(x.Op, f.get(x.X), f.get(x.Y), x.X.Type(), x.Y.Type(), f.g, x)
	case *ssa.FieldAddr:
		p := f.get(x.X).(*PtrV)
		m.noPanic(f.g, isNilPtr(p), "nil pointer dereference (field)", x)
		r := &PtrV{}
		for _, a := range p.Alts {
			path := append(append([]int{}, a.Path...), x.Field)
			r.Alts = append(r.Alts, PtrAlt{a.G, a.Obj, path})
		}
		f.env[x] = r
	case *ssa.Field:
		f.env[x] = f.get(x.X).(*StructV).F[x.Field]
	case *ssa.IndexAddr:
		f.env[x] = f.indexAddr(x)
	case *ssa.Index:
		f.env[x] = f.index(x)
	case *ssa.Lookup:
		f.env[x] = f.lookup(x)
	case *ssa.MapUpdate:
		m.mapUpdate(f.get(x.Map).(*MapV), f.get(x.Key), f.get(x.Value), f.g, x)
	case *ssa.Range:
		switch v := f.get(x.X).(type) {
		case *MapV:
			it := &RangeIter{M: v}
			if m.cfg["maporder"] == 1 {
				it.rev = true
				for _, a := range v.Alts {
					it.snap = append(it.snap, len(a.Obj.val.(*MapContent).Entries))
				}
			}
			f.env[x] = it
		default:
			panic(notEncoded("range over %T", v))
		}
	case *ssa.Next:
		f.env[x] = f.next(x)
	case *ssa.Extract:
		f.env[x] = f.get(x.Tuple).(*TupleV).E[x.Index]
	case *ssa.Slice:
		f.env[x] = f.slice(x)
	case *ssa.MakeSlice:
		f.env[x] = f.makeSlice(x)
	case *ssa.MakeMap:
		o := m.newObject(&MapContent{}, x.Type(), "map")
		f.env[x] = &MapV{Alts: []RefAlt{{TS.True, o}}}
	case *ssa.MakeChan:
		o := m.newObject(&ChanContent{Closed: TS.False}, x.Type(), "chan")
		f.env[x] = &ChanV{Alts: []RefAlt{{TS.True, o}}}
	case *ssa.MakeClosure:
		var bind []Value
		for _, b := range x.Bindings {
			bind = append(bind, f.get(b))
		}
		f.env[x] = &FuncV{Alts: []FuncAlt{{G: TS.True, Fn: x.Fn.(*ssa.Function), Bind: bind}}}
	case *ssa.MakeInterface:
		f.env[x] = &IfaceV{Alts: []IfaceAlt{{TS.True, x.X.Type(), f.get(x.X)}}}
	case *ssa.ChangeType:
		f.env[x] = f.get(x.X)
	case *ssa.ChangeInterface:
		f.env[x] = f.get(x.X)
	case *ssa.Convert:
		f.env[x] = m.convert(f.get(x.X), x.X.Type(), x.Type())
	case *ssa.TypeAssert:
		f.env[x] = f.typeAssert(x)
	case *ssa.Call:
		r := m.call(f, x.Common(), f.g, x)
		if r == nil && x.Type() != nil {
			if tup, ok := x.Type().(*types.Tuple); !ok || tup.Len() > 0 {
				r = m.zero(x.Type())
			}
		}
		f.env[x] = r
	case *ssa.Defer:
		cc := x.Common()
		call := m.prepareCall(f, cc, x)
		f.defers = append(f.defers, deferRec{g: f.g, call: call})
	case *ssa.RunDefers:
		for i := len(f.defers) - 1; i >= 0; i-- {
			d := f.defers[i]
			d.call(And(f.g, d.g))
		}
	case *ssa.Go:
		cc := x.Common()
		m.recordGo(f, cc, x)
	case *ssa.Send:
		ch := f.get(x.Chan).(*ChanV)
		v := f.get(x.X)
		for _, a := range ch.Alts {
			c := a.Obj.val.(*ChanContent)
			g := And(f.g, a.G)
			m.noPanic(g, c.Closed, "send on closed channel", x)
			a.Obj.val = &ChanContent{Queue: append(append([]ChanItem{}, c.Queue...), ChanItem{g, v}), Closed: c.Closed}
		}
	case *ssa.If:
		c := f.term(x.Cond)
		b := x.Block()
		if f.info.loops[b] != nil {
			f.hdrConcrete[b] = c.IsConst()
		}
		// range-over-map skip edge
		if ex, ok := x.Cond.(*ssa.Extract); ok && ex.Index == 0 {
			if nx, ok := ex.Tuple.(*ssa.Next); ok {
				if it, ok := f.env[nx.Iter].(*RangeIter); ok && it.SkipOK {
					it.SkipOK = false
					// c == "cursor in range"; the entry is present under it.CurG
					f.addEdge(b, b.Succs[0], And(f.g, c, it.CurG), false)
					f.addEdge(b, b.Succs[1], And(f.g, Not(c)), false)
					skip := And(f.g, c, Not(it.CurG))
					if !skip.IsFalse() {
						if f.info.loops[b] == nil {
							panic(notEncoded("range over map with symbolic presence outside a loop header"))
						}
						f.addEdge(b, b, skip, true)
					}
					return
				}
			}
		}
		f.addEdge(b, b.Succs[0], And(f.g, c), false)
		f.addEdge(b, b.Succs[1], And(f.g, Not(c)), false)
	case *ssa.Jump:
		f.addEdge(x.Block(), x.Block().Succs[0], f.g, false)
	case *ssa.Return:
		var v Value
		switch len(x.Results) {
		case 0:
		case 1:
			v = f.get(x.Results[0])
		default:
			t := &TupleV{}
			for _, r := range x.Results {
				t.E = append(t.E, f.get(r))
			}
			v = t
		}
		f.rets = append(f.rets, retRec{f.g, v})
	case *ssa.Panic:
		m.noPanic(f.g, TS.True, "explicit panic", x)
	default:
		panic(notEncoded("instruction %T (%s) in %s", ins, ins.String(), f.fn.String()))
	}
}

// ---------- memory ----------

func (m *Machine) load(p *PtrV, g *Term, site ssa.Instruction) Value {
	m.noPanic(g, isNilPtr(p), "nil pointer dereference (load)", site)
	if m.lockWatch != nil {
		m.lockWatch.access(m, p, g, site, false)
	}
	var res Value
	for i := len(p.Alts) - 1; i >= 0; i-- {
		a := p.Alts[i]
		v := getPath(a.Obj.val, a.Path)
		if res == nil {
			res = v
		} else {
			res = mergeValue(a.G, v, res)
		}
	}
	return res // nil when the pointer has no target at all (the nil-dereference VC above covers it)
}

func (m *Machine) store(p *PtrV, v Value, g *Term, site ssa.Instruction) {
	m.noPanic(g, isNilPtr(p), "nil pointer dereference (store)", site)
	if m.lockWatch != nil {
		m.lockWatch.access(m, p, g, site, true)
	}
	for _, a := range p.Alts {
		c := And(g, a.G)
		if c.IsFalse() {
			continue
		}
		c = reduceGuard(c, a.Obj.born)
		a.Obj.val = setPath(a.Obj.val, a.Path, func(old Value) Value { return mergeValue(c, v, old) })
	}
}

func (f *Frame) unop(x *ssa.UnOp) Value {
	m := f.m
	switch x.Op {
	case token.MUL:
		v := m.load(f.get(x.X).(*PtrV), f.g, x)
		if v == nil {
			v = m.zero(x.Type())
		}
		return v
	case token.NOT:
		return Not(f.term(x.X))
	case token.SUB:
		if isFloat(x.X.Type()) {
			return UF("fneg", BV(64), f.term(x.X))
		}
		return Neg(f.term(x.X))
	case token.XOR:
		return BNot(f.term(x.X))
	case token.ARROW:
		panic(notEncoded("channel receive in %s", f.fn.String()))
	}
	panic(notEncoded("unop %v", x.Op))
}

func (m *Machine) binop(op token.Token, a, b Value, ta, tb types.Type, g *Term, site ssa.Instruction) Value {
	switch op {
	case token.EQL:
		return m.eq(a, b, ta)
	case token.NEQ:
		return Not(m.eq(a, b, ta))
	}
	x, ok1 := a.(*Term)
	y, ok2 := b.(*Term)
	if !ok1 || !ok2 {
		panic(notEncoded("binop %v on %T,%T", op, a, b))
	}
	if isString(ta) {
		switch op {
		case token.ADD:
			s1, c1 := m.concreteString(x)
			s2, c2 := m.concreteString(y)
			if c1 && c2 {
				return m.strConst(s1 + s2)
			}
			if x.cases != nil && y.cases != nil && len(x.cases)*len(y.cases) <= maxCases {
				ok := true
				cs := map[uint64]*Term{}
				for _, a := range x.cases {
					for _, b := range y.cases {
						if int(a.k) >= len(m.strs) || int(b.k) >= len(m.strs) {
							ok = false
							continue
						}
						addCase(cs, uint64(m.intern(m.strs[a.k]+m.strs[b.k])), And(a.c, b.c))
					}
				}
				if ok {
					return mkCases(strW, cs)
				}
			}
			return UF("strcat", BV(strW), x, y)
		case token.LSS, token.GTR, token.LEQ, token.GEQ:
			s1, c1 := m.concreteString(x)
			s2, c2 := m.concreteString(y)
			if c1 && c2 {
				switch op {
				case token.LSS:
					return Bool(s1 < s2)
				case token.GTR:
					return Bool(s1 > s2)
				case token.LEQ:
					return Bool(s1 <= s2)
				case token.GEQ:
					return Bool(s1 >= s2)
				}
			}
		}
		panic(notEncoded("string binop %v on symbolic strings", op))
	}
	if isFloat(ta) {
		// floating point is not interpreted: arithmetic yields an arbitrary value,
		// comparisons an arbitrary truth value (sound over-approximation)
		m.stubsUsed["float64 arithmetic/comparison = arbitrary result"]++
		switch op {
		case token.ADD, token.SUB, token.MUL, token.QUO:
			if x.IsConst() && y.IsConst() {
				a, b := math.Float64frombits(x.val), math.Float64frombits(y.val)
				var r float64
				switch op {
				case token.ADD:
					r = a + b
				case token.SUB:
					r = a - b
				case token.MUL:
					r = a * b
				default:
					r = a / b
				}
				return Const(64, math.Float64bits(r))
			}
			return m.fresh("f", BV(64))
		case token.LSS, token.GTR, token.LEQ, token.GEQ:
			if x.IsConst() && y.IsConst() {
				a, b := math.Float64frombits(x.val), math.Float64frombits(y.val)
				switch op {
				case token.LSS:
					return Bool(a < b)
				case token.GTR:
					return Bool(a > b)
				case token.LEQ:
					return Bool(a <= b)
				default:
					return Bool(a >= b)
				}
			}
			return m.fresh("fcmp", BoolSort)
		}
		panic(notEncoded("float binop %v", op))
	}
	if x.sort.Bool {
		switch op {
		case token.AND, token.LAND:
			return And(x, y)
		case token.OR, token.LOR:
			return Or(x, y)
		}
		panic(notEncoded("bool binop %v", op))
	}
	uns := isUnsigned(ta)
	if op == token.SHL || op == token.SHR {
		// bring the shift count to the operand width
		if y.sort.W < x.sort.W {
			y = Zext(y, x.sort.W)
		} else if y.sort.W > x.sort.W {
			big := Not(Cmp(OpUlt, y, Const(y.sort.W, uint64(x.sort.W))))
			y = Ite(big, Const(x.sort.W, uint64(x.sort.W)), Extract(x.sort.W-1, 0, y))
		}
		if op == token.SHL {
			return BinOp(OpShl, x, y)
		}
		if uns {
			return BinOp(OpLshr, x, y)
		}
		return BinOp(OpAshr, x, y)
	}
	switch op {
	case token.ADD:
		return BinOp(OpAdd, x, y)
	case token.SUB:
		return BinOp(OpSub, x, y)
	case token.MUL:
		return BinOp(OpMul, x, y)
	case token.QUO, token.REM:
		m.noPanic(g, Eq(y, Const(y.sort.W, 0)), "integer divide by zero", site)
		if op == token.QUO {
			if uns {
				return BinOp(OpUDiv, x, y)
			}
			return BinOp(OpSDiv, x, y)
		}
		if uns {
			return BinOp(OpURem, x, y)
		}
		return BinOp(OpSRem, x, y)
	case token.AND:
		return BinOp(OpBAnd, x, y)
	case token.OR:
		return BinOp(OpBOr, x, y)
	case token.XOR:
		return BinOp(OpBXor, x, y)
	case token.AND_NOT:
		return BinOp(OpBAnd, x, BNot(y))
	case token.LSS:
		if uns {
			return Cmp(OpUlt, x, y)
		}
		return Cmp(OpSlt, x, y)
	case token.LEQ:
		if uns {
			return Cmp(OpUle, x, y)
		}
		return Cmp(OpSle, x, y)
	case token.GTR:
		if uns {
			return Cmp(OpUlt, y, x)
		}
		return Cmp(OpSlt, y, x)
	case token.GEQ:
		if uns {
			return Cmp(OpUle, y, x)
		}
		return Cmp(OpSle, y, x)
	}
	panic(notEncoded("binop %v", op))
}

func (m *Machine) eq(a, b Value, t types.Type) *Term {
	if isFloat(t) {
		x, y := a.(*Term), b.(*Term)
		if x.IsConst() && y.IsConst() {
			return Bool(math.Float64frombits(x.val) == math.Float64frombits(y.val))
		}
		return m.fresh("fcmp", BoolSort)
	}
	return valueEq(a, b)
}

func (m *Machine) convert(v Value, from, to types.Type) Value {
	if blob, ok := v.(*JSONBlob); ok {
		return blob
	}
	fs, ok1 := scalarSort(from)
	tsort, ok2 := scalarSort(to)
	if !ok1 || !ok2 {
		// []byte(string) / string([]byte) of non-blob data
		if isString(from) {
			if s, ok := m.concreteString(v); ok {
				return m.bytesSlice([]byte(s))
			}
		}
		panic(notEncoded("convert %v -> %v", from, to))
	}
	x := v.(*Term)
	switch {
	case isString(from) && isString(to):
		return x
	case isString(from) || isString(to):
		panic(notEncoded("convert %v -> %v", from, to))
	case isFloat(from) && isFloat(to):
		return x
	case isFloat(from):
		return Extract(tsort.W-1, 0, UF("ftoi", BV(64), x))
	case isFloat(to):
		if isUnsigned(from) {
			return UF("itof", BV(64), Zext(x, 64))
		}
		return UF("itof", BV(64), Sext(x, 64))
	case fs.Bool || tsort.Bool:
		panic(notEncoded("convert bool"))
	}
	if tsort.W <= fs.W {
		return Extract(tsort.W-1, 0, x)
	}
	if isUnsigned(from) {
		return Zext(x, tsort.W)
	}
	return Sext(x, tsort.W)
}

func (m *Machine) bytesSlice(b []byte) *SliceV {
	arr := &ArrayV{}
	for _, c := range b {
		arr.E = append(arr.E, Const(8, uint64(c)))
	}
	o := m.newObject(arr, types.Typ[types.Uint8], "bytes")
	return &SliceV{Alts: []SliceAlt{{TS.True, o, 0, 0}}, Len: ConstI(64, int64(len(b)))}
}

// ---------- slices / arrays ----------

func (m *Machine) sliceCapMax(s *SliceV) int {
	c := 0
	for _, a := range s.Alts {
		if n := a.room(); n > c {
			c = n
		}
	}
	return c
}

func (f *Frame) indexAddr(x *ssa.IndexAddr) Value {
	m := f.m
	idx := f.term(x.Index)
	if idx.sort.W != 64 {
		if isUnsigned(x.Index.Type()) {
			idx = Zext(idx, 64)
		} else {
			idx = Sext(idx, 64)
		}
	}
	r := &PtrV{}
	switch v := f.get(x.X).(type) {
	case *SliceV:
		m.noPanic(f.g, Or(Slt(idx, Const(64, 0)), Sge(idx, v.Len)), "index out of range", x)
		for _, a := range v.Alts {
			n := a.room()
			for j := 0; j < n; j++ {
				g := And(a.G, Eq(idx, ConstI(64, int64(j))), Slt(ConstI(64, int64(j)), v.Len))
				if !g.IsFalse() {
					r.Alts = append(r.Alts, PtrAlt{g, a.Obj, []int{a.Off + j}})
				}
			}
		}
	case *PtrV: // pointer to array
		n := int(x.X.Type().Underlying().(*types.Pointer).Elem().Underlying().(*types.Array).Len())
		m.noPanic(f.g, isNilPtr(v), "nil pointer dereference (array)", x)
		m.noPanic(f.g, Or(Slt(idx, Const(64, 0)), Sge(idx, ConstI(64, int64(n)))), "index out of range", x)
		for _, a := range v.Alts {
			for j := 0; j < n; j++ {
				g := And(a.G, Eq(idx, ConstI(64, int64(j))))
				if !g.IsFalse() {
					r.Alts = append(r.Alts, PtrAlt{g, a.Obj, append(append([]int{}, a.Path...), j)})
				}
			}
		}
	default:
		panic(notEncoded("IndexAddr on %T", v))
	}
	return r
}

func (f *Frame) index(x *ssa.Index) Value {
	m := f.m
	idx := f.term(x.Index)
	if idx.sort.W != 64 {
		idx = Sext(idx, 64)
	}
	switch v := f.get(x.X).(type) {
	case *ArrayV:
		n := len(v.E)
		m.noPanic(f.g, Or(Slt(idx, Const(64, 0)), Sge(idx, ConstI(64, int64(n)))), "index out of range", x)
		var res Value
		for j := n - 1; j >= 0; j-- {
			if res == nil {
				res = v.E[j]
			} else {
				res = mergeValue(Eq(idx, ConstI(64, int64(j))), v.E[j], res)
			}
		}
		return res
	}
	panic(notEncoded("Index on %T", f.get(x.X)))
}

func (f *Frame) makeSlice(x *ssa.MakeSlice) Value {
	m := f.m
	ln := f.term(x.Len)
	cp := f.term(x.Cap)
	et := x.Type().Underlying().(*types.Slice).Elem()
	n, ok := concreteInt(cp)
	if !ok {
		// symbolic capacity: need a bound; use the unwinding bound
		n = int64(m.unwind)
		m.noPanic(f.g, Or(Slt(cp, Const(64, 0)), Sgt(cp, ConstI(64, n))), "make: capacity outside the modelled bound", x)
	}
	if n < 0 || n > 4096 {
		panic(notEncoded("make slice with capacity %d", n))
	}
	arr := &ArrayV{E: make([]Value, n)}
	for i := range arr.E {
		arr.E[i] = m.zero(et)
	}
	o := m.newObject(arr, et, "make")
	return &SliceV{Alts: []SliceAlt{{TS.True, o, 0, 0}}, Len: ln}
}

func concreteInt(t *Term) (int64, bool) {
	if t.IsConst() {
		return t.Int(), true
	}
	return 0, false
}

func (f *Frame) slice(x *ssa.Slice) Value {
	if x.Max != nil {
		mx := f.term(x.Max)
		if v, ok := concreteInt(mx); ok {
			return f.sliceCore(x, int(v))
		}
		if len(mx.cases) == 0 {
			panic(notEncoded("3-index slice with symbolic max"))
		}
		// small-domain max: one instance per value, merged under the value's condition
		var res Value
		g0 := f.g
		for i := len(mx.cases) - 1; i >= 0; i-- {
			kc := mx.cases[i]
			f.g = And(g0, kc.c)
			if f.g.IsFalse() {
				continue
			}
			v := f.sliceCore(x, int(int64(kc.k)))
			if res == nil {
				res = v
			} else {
				res = mergeValue(kc.c, v, res)
			}
		}
		f.g = g0
		return res
	}
	return f.sliceCore(x, -1)
}

// sliceCore: capLim is the concrete capacity limit of a 3-index slice expression
// (absolute: max), -1 = none.
func (f *Frame) sliceCore(x *ssa.Slice, capLim int) Value {
	m := f.m
	var lo, hi *Term
	if x.Low != nil {
		lo = f.term(x.Low)
	} else {
		lo = Const(64, 0)
	}
	if x.High != nil {
		hi = f.term(x.High)
	}
	// limited(off, lo): Cap of the result alternative that starts lo elements into one with limit old
	limited := func(old, l int) int {
		c := old
		if c > 0 {
			c -= l
			if c <= 0 {
				c = -1
			}
		}
		if capLim >= 0 {
			n := capLim - l
			if n <= 0 {
				n = -1
			}
			if c == 0 || (n > 0 && n < c) || n < 0 {
				c = n
			}
		}
		return c
	}
	switch v := f.get(x.X).(type) {
	case *SliceV:
		if hi == nil {
			hi = v.Len
		}
		capMax := ConstI(64, int64(m.sliceCapMax(v)))
		m.noPanic(f.g, Or(Slt(lo, Const(64, 0)), Sgt(lo, hi), Sgt(hi, capMax)), "slice bounds out of range", x)
		r := &SliceV{Len: Sub(hi, lo)}
		if capLim >= 0 {
			m.noPanic(f.g, Or(Sgt(hi, ConstI(64, int64(capLim))), Sgt(ConstI(64, int64(capLim)), capMax)), "slice bounds out of range (max)", x)
		}
		if l, ok := concreteInt(lo); ok {
			for _, a := range v.Alts {
				n := a.room()
				if int(l) > n {
					continue
				}
				r.Alts = append(r.Alts, SliceAlt{a.G, a.Obj, a.Off + int(l), limited(a.Cap, int(l))})
			}
			// per-alternative capacity check
			for _, a := range v.Alts {
				n := a.room()
				m.noPanic(f.g, And(a.G, Sgt(hi, ConstI(64, int64(n)))), "slice bounds out of range (cap)", x)
			}
			return r
		}
		// symbolic low bound: case split over offsets
		for _, a := range v.Alts {
			n := a.room()
			for j := 0; j <= n; j++ {
				g := And(a.G, Eq(lo, ConstI(64, int64(j))))
				if !g.IsFalse() {
					r.Alts = append(r.Alts, SliceAlt{g, a.Obj, a.Off + j, limited(a.Cap, j)})
				}
			}
		}
		return r
	case *PtrV:
		at := x.X.Type().Underlying().(*types.Pointer).Elem().Underlying().(*types.Array)
		n := int(at.Len())
		if hi == nil {
			hi = ConstI(64, int64(n))
		}
		l, ok := concreteInt(lo)
		if !ok || len(v.Alts) != 1 || len(v.Alts[0].Path) != 0 {
			panic(notEncoded("slice of array pointer with symbolic base"))
		}
		m.noPanic(f.g, Or(Slt(lo, Const(64, 0)), Sgt(lo, hi), Sgt(hi, ConstI(64, int64(n)))), "slice bounds out of range", x)
		if capLim > n {
			m.noPanic(f.g, TS.True, "slice bounds out of range (max)", x)
		}
		return &SliceV{Alts: []SliceAlt{{v.Alts[0].G, v.Alts[0].Obj, int(l), limited(0, int(l))}}, Len: Sub(hi, lo)}
	}
	panic(notEncoded("Slice on %T", f.get(x.X)))
}

// sliceElem reads element i (concrete) of a slice under the assumption i < len.
func (m *Machine) sliceElem(s *SliceV, i int) Value {
	var res Value
	for k := len(s.Alts) - 1; k >= 0; k-- {
		a := s.Alts[k]
		arr := a.Obj.val.(*ArrayV)
		if a.Off+i >= len(arr.E) {
			continue
		}
		v := arr.E[a.Off+i]
		if res == nil {
			res = v
		} else {
			res = mergeValue(a.G, v, res)
		}
	}
	return res
}

// appendValues implements append(s, vals...) where vals has symbolic length
// vlen and concrete maximum len(vals).
func (m *Machine) appendValues(s *SliceV, vals []Value, vlen *Term, et types.Type, g *Term) *SliceV {
	if len(vals) == 0 {
		return s
	}
	newLen := Add(s.Len, vlen)
	res := &SliceV{Len: newLen}
	capMax := m.sliceCapMax(s)
	var fits []*Term
	for _, a := range s.Alts {
		n := a.room()
		fit := And(a.G, Sle(newLen, ConstI(64, int64(n))))
		if fit.IsFalse() {
			continue
		}
		fits = append(fits, fit)
		// write in place
		c := And(g, fit)
		arr := a.Obj.val.(*ArrayV)
		na := &ArrayV{E: append([]Value{}, arr.E...)}
		for j := 0; j < n; j++ {
			// position j receives vals[k] when len+k == j
			for k := range vals {
				if j-k < 0 {
					continue
				}
				hit := And(c, Eq(s.Len, ConstI(64, int64(j-k))), Slt(ConstI(64, int64(k)), vlen))
				if !hit.IsFalse() {
					na.E[a.Off+j] = mergeValue(hit, vals[k], na.E[a.Off+j])
				}
			}
		}
		a.Obj.val = na
		res.Alts = append(res.Alts, SliceAlt{fit, a.Obj, a.Off, a.Cap})
	}
	grow := Not(Or(fits...))
	if !And(g, grow).IsFalse() {
		// fresh backing array without spare capacity (see DESIGN 2.3)
		n := capMax + len(vals)
		if l, ok := concreteInt(newLen); ok && int(l) <= n {
			n = int(l)
		}
		na := &ArrayV{E: make([]Value, n)}
		for j := 0; j < n; j++ {
			var v Value = m.zero(et)
			if j < capMax {
				if old := m.sliceElem(s, j); old != nil {
					v = old
				}
			}
			for k := range vals {
				if j-k < 0 {
					continue
				}
				hit := And(Eq(s.Len, ConstI(64, int64(j-k))), Slt(ConstI(64, int64(k)), vlen))
				if !hit.IsFalse() {
					v = mergeValue(hit, vals[k], v)
				}
			}
			na.E[j] = v
		}
		o := m.newObject(na, et, "append")
		res.Alts = append(res.Alts, SliceAlt{grow, o, 0, 0})
	}
	return res
}

// ---------- maps ----------

func (m *Machine) mapLookup(mv *MapV, key Value, vt types.Type) (Value, *Term) {
	var val Value = m.zero(vt)
	ok := TS.False
	for _, a := range mv.Alts {
		c := a.Obj.val.(*MapContent)
		for _, e := range c.Entries {
			hit := And(a.G, e.P, valueEq(e.K, key))
			if hit.IsFalse() {
				continue
			}
			val = mergeValue(hit, e.V, val)
			ok = Or(ok, hit)
		}
	}
	return val, ok
}

func (f *Frame) lookup(x *ssa.Lookup) Value {
	m := f.m
	switch v := f.get(x.X).(type) {
	case *MapV:
		vt := x.X.Type().Underlying().(*types.Map).Elem()
		val, ok := m.mapLookup(v, f.get(x.Index), vt)
		if x.CommaOk {
			return &TupleV{E: []Value{val, ok}}
		}
		return val
	}
	panic(notEncoded("Lookup on %T", f.get(x.X)))
}

func (m *Machine) mapUpdate(mv *MapV, key, val Value, g *Term, site ssa.Instruction) {
	m.noPanic(g, refNil(mv.Alts), "assignment to entry in nil map", site)
	for _, a := range mv.Alts {
		G := And(g, a.G)
		if G.IsFalse() {
			continue
		}
		G = reduceGuard(G, a.Obj.born)
		c := a.Obj.val.(*MapContent)
		nc := &MapContent{Entries: append([]MapEntry{}, c.Entries...)}
		matched := TS.False
		done := false
		for i, e := range nc.Entries {
			same := valueEq(e.K, key)
			if same.IsTrue() {
				// same key term: update in place, entry becomes present
				nc.Entries[i].V = mergeValue(G, val, e.V)
				nc.Entries[i].P = Or(e.P, G)
				done = true
				break
			}
			hit := And(e.P, same)
			if hit.IsFalse() {
				continue
			}
			nc.Entries[i].V = mergeValue(And(G, hit), val, e.V)
			matched = Or(matched, hit)
		}
		if !done {
			p := And(G, Not(matched))
			if !p.IsFalse() && len(nc.Entries) >= 4 && !p.IsTrue() {
				// keep maps from growing with entries that can never be present
				if m.feasible(And(m.gNow, p)) == Unsat {
					p = TS.False
				}
			}
			if !p.IsFalse() {
				nc.Entries = append(nc.Entries, MapEntry{K: key, P: p, V: val})
			}
		}
		a.Obj.val = nc
	}
}

func (m *Machine) mapDelete(mv *MapV, key Value, g *Term) {
	for _, a := range mv.Alts {
		G := And(g, a.G)
		if G.IsFalse() {
			continue
		}
		c := a.Obj.val.(*MapContent)
		nc := &MapContent{Entries: append([]MapEntry{}, c.Entries...)}
		for i, e := range nc.Entries {
			hit := And(G, valueEq(e.K, key))
			nc.Entries[i].P = And(e.P, Not(hit))
		}
		a.Obj.val = nc
	}
}

func (m *Machine) mapLen(mv *MapV) *Term {
	n := Const(64, 0)
	for _, a := range mv.Alts {
		for _, e := range a.Obj.val.(*MapContent).Entries {
			n = Add(n, Ite(And(a.G, e.P), Const(64, 1), Const(64, 0)))
		}
	}
	return n
}

func (f *Frame) next(x *ssa.Next) Value {
	m := f.m
	it, ok := f.get(x.Iter).(*RangeIter)
	if !ok || x.IsString {
		panic(notEncoded("Next on %T", f.get(x.Iter)))
	}
	mt := x.Iter.(*ssa.Range).X.Type().Underlying().(*types.Map)
	for it.alt < len(it.M.Alts) {
		a := it.M.Alts[it.alt]
		c := a.Obj.val.(*MapContent)
		if it.idx < len(c.Entries) {
			e := c.Entries[it.idx]
			if it.rev && it.alt < len(it.snap) && it.idx < it.snap[it.alt] {
				e = c.Entries[it.snap[it.alt]-1-it.idx]
			}
			it.idx++
			p := And(a.G, e.P)
			if p.IsFalse() || And(f.g, p).IsFalse() {
				continue // absent on every path that reaches this iteration
			}
			it.Cur = e
			it.CurG = p
			it.SkipOK = true
			return &TupleV{E: []Value{TS.True, e.K, e.V}}
		}
		it.alt++
		it.idx = 0
	}
	it.SkipOK = false
	return &TupleV{E: []Value{TS.False, m.zero(mt.Key()), m.zero(mt.Elem())}}
}

// ---------- interfaces ----------

func (f *Frame) typeAssert(x *ssa.TypeAssert) Value {
	m := f.m
	iv := f.get(x.X).(*IfaceV)
	at := x.AssertedType
	if types.IsInterface(at) {
		okT := TS.False
		res := &IfaceV{}
		for _, a := range iv.Alts {
			if types.Implements(a.T, at.Underlying().(*types.Interface)) {
				okT = Or(okT, a.G)
				res.Alts = append(res.Alts, a)
			}
		}
		if x.CommaOk {
			return &TupleV{E: []Value{res, okT}}
		}
		m.noPanic(f.g, Not(okT), "interface conversion", x)
		return res
	}
	okT := TS.False
	var res Value = m.zero(at)
	for _, a := range iv.Alts {
		if types.Identical(a.T, at) {
			okT = Or(okT, a.G)
			res = mergeValue(a.G, a.V, res)
		}
	}
	if x.CommaOk {
		return &TupleV{E: []Value{res, okT}}
	}
	m.noPanic(f.g, Not(okT), fmt.Sprintf("interface conversion to %v", at), x)
	return res
}
