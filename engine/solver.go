package main

// One long-lived SMT solver process (z3 -in by default); terms are sent as
// zero-arity define-funs so the script is a DAG; queries use push/pop.

import (
	"bufio"
	"fmt"
	"io"
	"os"
	"os/exec"
	"sort"
	"strings"
	"time"
)

type Result int

const (
	Unsat Result = iota
	Sat
	Unknown
)

func (r Result) String() string { return [...]string{"unsat", "sat", "unknown"}[r] }

type Solver struct {
	name     string
	cmd      *exec.Cmd
	in       io.WriteCloser
	out      *bufio.Reader
	defined  map[int]bool
	declared map[string]bool
	ufs      map[string]bool
	log      io.Writer
	Queries  int
	Time     time.Duration
	MaxQuery time.Duration
	Errors   []string
	timeoutM int
	perm     []*Term
	keep     bool
	cur      strings.Builder
	slowN    int
}

func solverArgv(name string, timeoutMs int) []string {
	switch name {
	case "z3":
		return []string{"z3", "-in", fmt.Sprintf("-t:%d", timeoutMs)}
	case "z3-new":
		return []string{"z3-new", "-in", fmt.Sprintf("-t:%d", timeoutMs)}
	case "cvc5":
		return []string{"cvc5", "--incremental", "--lang=smt2", fmt.Sprintf("--tlimit-per=%d", timeoutMs), "--produce-models"}
	}
	return strings.Fields(name)
}

func NewSolver(name string, timeoutMs int, logPath string) (*Solver, error) {
	argv := solverArgv(name, timeoutMs)
	cmd := exec.Command(argv[0], argv[1:]...)
	in, err := cmd.StdinPipe()
	if err != nil {
		return nil, err
	}
	out, err := cmd.StdoutPipe()
	if err != nil {
		return nil, err
	}
	cmd.Stderr = cmd.Stdout
	if err := cmd.Start(); err != nil {
		return nil, err
	}
	s := &Solver{name: name, cmd: cmd, in: in, out: bufio.NewReaderSize(out, 1<<20),
		defined: map[int]bool{}, declared: map[string]bool{}, ufs: map[string]bool{}, timeoutM: timeoutMs}
	if logPath != "" {
		f, err := os.Create(logPath)
		if err == nil {
			s.log = f
		}
	}
	return s, nil
}

func (s *Solver) send(line string) {
	if s.log != nil {
		io.WriteString(s.log, line+"\n")
	}
	if s.keep {
		s.cur.WriteString(line)
		s.cur.WriteByte('\n')
	}
	io.WriteString(s.in, line+"\n")
}

func (s *Solver) Close() {
	s.send("(exit)")
	s.in.Close()
	done := make(chan struct{})
	go func() { s.cmd.Wait(); close(done) }()
	select {
	case <-done:
	case <-time.After(2 * time.Second):
		s.cmd.Process.Kill()
	}
}

// cone emits declarations and definitions for everything reachable from roots.
// Term ids are topologically ordered (children are interned before parents),
// so emitting in increasing id order is a valid definition order.
func (s *Solver) cone(roots []*Term) {
	seen := map[int]bool{}
	var ids []int
	stack := append([]*Term{}, roots...)
	for len(stack) > 0 {
		t := stack[len(stack)-1]
		stack = stack[:len(stack)-1]
		if seen[t.id] || t.op == OpConst {
			continue
		}
		seen[t.id] = true
		ids = append(ids, t.id)
		for _, a := range t.args {
			if !seen[a.id] {
				stack = append(stack, a)
			}
		}
	}
	sort.Ints(ids)
	ufs := map[string]bool{}
	var sb strings.Builder
	for _, id := range ids {
		x := TS.terms[id]
		switch x.op {
		case OpVar:
			fmt.Fprintf(&sb, "(declare-const %s %s)\n", x.name, x.sort)
		default:
			if x.op == OpUF && !ufs[x.name] {
				ufs[x.name] = true
				sb.WriteString(TS.ufs[x.name])
				sb.WriteByte('\n')
			}
			fmt.Fprintf(&sb, "(define-fun t%d () %s %s)\n", x.id, x.sort, x.body())
		}
	}
	s.send(strings.TrimRight(sb.String(), "\n"))
}

// Assert adds a permanent assertion.
func (s *Solver) Assert(t *Term) {
	s.perm = append(s.perm, t)
}

func (s *Solver) readLine() string {
	line, err := s.out.ReadString('\n')
	if err != nil {
		return "(error \"solver died: " + err.Error() + "\")"
	}
	return strings.TrimSpace(line)
}

// Check decides satisfiability of the permanent assertions plus extra.  If
// wantModel and the result is sat, values of the given variables are returned.
func (s *Solver) Check(extra []*Term, wantModel bool, vars []*Term) (Result, map[string]uint64) {
	start := time.Now()
	s.keep = os.Getenv("SYMGO_SLOWDIR") != ""
	s.cur.Reset()
	if s.keep {
		// watchdog: dump the query if it is still running after 10 s
		done := make(chan struct{})
		defer close(done)
		go func() {
			select {
			case <-done:
			case <-time.After(10 * time.Second):
				s.slowN++
				os.WriteFile(fmt.Sprintf("%s/slow-%d-%d.smt2", os.Getenv("SYMGO_SLOWDIR"), os.Getpid(), s.slowN), []byte(s.cur.String()), 0644)
			}
		}()
	}
	// one-shot query after (reset): the solver's full preprocessing + SAT
	// pipeline is used (z3's incremental core is orders of magnitude slower on
	// these bit-vector queries).
	s.send("(reset)")
	s.send("(set-option :produce-models true)")
	if s.name == "cvc5" {
		s.send("(set-logic ALL)")
	}
	roots := append(append(append([]*Term{}, s.perm...), extra...), vars...)
	s.cone(roots)
	for _, t := range s.perm {
		s.send(fmt.Sprintf("(assert %s)", t.ref()))
	}
	for _, t := range extra {
		s.send(fmt.Sprintf("(assert %s)", t.ref()))
	}
	s.send("(check-sat)")
	res := Unknown
	for {
		line := s.readLine()
		if line == "" {
			continue
		}
		if strings.HasPrefix(line, "(error") {
			s.Errors = append(s.Errors, line)
			if strings.Contains(line, "solver died") {
				break
			}
			continue
		}
		switch line {
		case "sat":
			res = Sat
		case "unsat":
			res = Unsat
		case "unknown", "timeout":
			res = Unknown
		default:
			s.Errors = append(s.Errors, "unexpected: "+line)
			continue
		}
		break
	}
	var model map[string]uint64
	if res == Sat && wantModel && len(vars) > 0 {
		var names []string
		for _, v := range vars {
			if v.op == OpVar {
				names = append(names, v.name)
			}
		}
		if len(names) > 0 {
			s.send("(get-value (" + strings.Join(names, " ") + "))")
			model = s.readModel()
		}
	}
	d := time.Since(start)
	s.Queries++
	s.Time += d
	if d > s.MaxQuery {
		s.MaxQuery = d
	}
	if len(s.Errors) > 0 && res != Unknown {
		// any error line makes the verdict inconclusive
		res = Unknown
	}
	return res, model
}

func (s *Solver) readModel() map[string]uint64 {
	// read a balanced s-expression
	var sb strings.Builder
	depth := 0
	started := false
	for {
		line := s.readLine()
		if strings.HasPrefix(line, "(error") {
			s.Errors = append(s.Errors, line)
			return nil
		}
		for _, c := range line {
			if c == '(' {
				depth++
				started = true
			} else if c == ')' {
				depth--
			}
		}
		sb.WriteString(line)
		sb.WriteByte(' ')
		if started && depth <= 0 {
			break
		}
	}
	txt := sb.String()
	m := map[string]uint64{}
	// tokens: ((name value) (name value) ...)
	txt = strings.ReplaceAll(txt, "(", " ( ")
	txt = strings.ReplaceAll(txt, ")", " ) ")
	toks := strings.Fields(txt)
	for i := 0; i+2 < len(toks); i++ {
		if toks[i] == "(" && toks[i+1] != "(" && toks[i+1] != ")" {
			name := toks[i+1]
			val := toks[i+2]
			if val == "(" {
				// (_ bvN w)
				if i+4 < len(toks) && toks[i+3] == "_" && strings.HasPrefix(toks[i+4], "bv") {
					var v uint64
					fmt.Sscanf(toks[i+4][2:], "%d", &v)
					m[name] = v
				}
				continue
			}
			switch {
			case val == "true":
				m[name] = 1
			case val == "false":
				m[name] = 0
			case strings.HasPrefix(val, "#x"):
				var v uint64
				fmt.Sscanf(val[2:], "%x", &v)
				m[name] = v
			case strings.HasPrefix(val, "#b"):
				var v uint64
				for _, c := range val[2:] {
					v = v<<1 | uint64(c-'0')
				}
				m[name] = v
			}
		}
	}
	return m
}
