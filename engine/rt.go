package main

// Engine side of the harness runtime (package verifrt) plus the JSON and time
// stubs.

import (
	"os"
	"fmt"
	"go/types"
	"reflect"
	"strings"

	"golang.org/x/tools/go/ssa"
)

type snapshot struct {
	root Value
	objs map[*Object]Value
}

func (m *Machine) verifrt(name string, args []Value, g *Term, site ssa.Instruction) Value {
	nameI := func() string {
		n := m.argStr(args[0], name)
		if strings.HasSuffix(name, "I") {
			n = fmt.Sprintf("%s[%d]", n, m.argInt(args[1], name))
		}
		return n
	}
	switch name {
	case "Cfg":
		n := m.argStr(args[0], name)
		v, ok := m.cfg[n]
		if !ok {
			panic(notEncoded("configuration value %q not given", n))
		}
		return ConstI(64, v)
	case "Int", "IntI", "Int64", "Int64I", "Bool", "BoolI":
		kind, srt := "int", BV(64)
		if strings.HasPrefix(name, "Bool") {
			kind, srt = "bool", BoolSort
		}
		// an index that is a small-domain value selects among the indexed inputs
		if strings.HasSuffix(name, "I") {
			if it, ok := args[1].(*Term); ok && it.cases != nil && len(it.cases) > 1 {
				base := m.argStr(args[0], name)
				var res *Term
				for i := len(it.cases) - 1; i >= 0; i-- {
					v := m.input(fmt.Sprintf("%s[%d]", base, signed(it.cases[i].k, 64)), kind, srt)
					if res == nil {
						res = v
					} else {
						res = Ite(it.cases[i].c, v, res)
					}
				}
				return res
			}
		}
		return m.input(nameI(), kind, srt)
	case "IntRange", "IntRangeI":
		// a value in [lo,hi] as a small-domain case term: arithmetic on it is
		// folded by the term layer instead of being bit-blasted
		n := m.argStr(args[0], name)
		rest := args[1:]
		if name == "IntRangeI" {
			n = fmt.Sprintf("%s[%d]", n, m.argInt(args[1], name))
			rest = args[2:]
		}
		lo, hi := m.argInt(rest[0], name), m.argInt(rest[1], name)
		if hi < lo || hi-lo >= maxCases {
			panic(notEncoded("IntRange %s: bad range [%d,%d]", n, lo, hi))
		}
		v := m.input(n, "int", BV(64))
		if v.IsConst() {
			return v
		}
		cs := map[uint64]*Term{}
		for k := lo; k <= hi; k++ {
			cs[uint64(k)] = Eq(v, ConstI(64, k))
		}
		m.assume(And(Sge(v, ConstI(64, lo)), Sle(v, ConstI(64, hi))))
		return mkCases(64, cs)
	case "Str", "StrI":
		return m.input(nameI(), "str", BV(strW))
	case "Assume":
		m.assume(Implies(g, args[0].(*Term)))
		return nil
	case "Assert":
		label := m.argStr(args[1], name)
		bad := And(g, Not(args[0].(*Term)))
		vc := m.checkVC("assert", label, m.posOf(site), bad)
		if (vc.Result != "unsat" && vc.Result != "trivial") || len(vc.KF) > 0 {
			// a failed (or known-finding) assertion is assumed from here on so that later
			// VCs are not polluted by it; a proved one is implied already
			m.assume(Not(bad))
		}
		return nil
	case "Reach":
		label := m.argStr(args[0], name)
		m.flushNP()
		vc := &VC{Harness: m.harness, Class: "reach", Label: label, Pos: m.posOf(site)}
		m.vcs = append(m.vcs, vc)
		q := []*Term{g}
		for _, k := range m.kfs {
			q = append(q, Not(k.T))
		}
		r, model := m.solver.Check(q, true, m.inputTerms())
		if r == Unsat && len(m.kfs) > 0 {
			// reachable only inside a known-finding region: still not vacuous (a finding region is
			// not an assumption); no model is kept, so no conformance run starts from inside it
			r, _ = m.solver.Check([]*Term{g}, true, m.inputTerms())
			model = nil
		}
		vc.Result = r.String()
		vc.Model = model
		return nil
	case "KF":
		n := m.argStr(args[0], name)
		if m.openKF[n] {
			m.kfs = append(m.kfs, KFRegion{Name: n, T: And(g, args[1].(*Term))})
		}
		return nil
	case "Observe":
		v, _ := unwrapIface(args[1])
		m.observes = append(m.observes, Observation{Name: m.argStr(args[0], name), V: v})
		return nil
	case "Snapshot":
		v, _ := unwrapIface(args[0])
		s := &snapshot{root: v, objs: map[*Object]Value{}}
		m.walk(v, TS.True, func(o *Object, g *Term) bool {
			if _, ok := s.objs[o]; ok {
				return false
			}
			s.objs[o] = o.val
			return true
		})
		id := len(m.snaps)
		m.snaps = append(m.snaps, s)
		return &StructV{F: []Value{ConstI(64, int64(id))}}
	case "SameState":
		id := m.argInt(args[0].(*StructV).F[0], name)
		v, _ := unwrapIface(args[1])
		s := m.snaps[id]
		return m.sameState(s, s.root, v, map[[2]*Object]bool{})
	case "Disjoint":
		a, _ := unwrapIface(args[0])
		b, _ := unwrapIface(args[1])
		ra, rb := map[*Object]*Term{}, map[*Object]*Term{}
		collect := func(v Value, into map[*Object]*Term) {
			m.walk(v, TS.True, func(o *Object, g *Term) bool {
				old, ok := into[o]
				if ok {
					into[o] = Or(old, g)
					return false
				}
				into[o] = g
				return true
			})
		}
		collect(a, ra)
		collect(b, rb)
		res := TS.True
		for o, ga := range ra {
			if gb, ok := rb[o]; ok {
				if os.Getenv("SYMGO_DEBUG_DISJOINT") != "" && !And(ga, gb).IsFalse() {
					fmt.Fprintf(os.Stderr, "[disjoint] shared object #%d %s (%v): %s  /  %s\n", o.id, o.name, o.typ, ga.String(), gb.String())
				}
				res = And(res, Not(And(ga, gb)))
			}
		}
		return res
	case "Pending":
		return ConstI(64, int64(len(m.pendingGo)))
	case "RunPending":
		tasks := m.pendingGo
		m.pendingGo = nil
		for _, t := range tasks {
			m.runGo(t, g)
		}
		return nil
	case "DuringSleep":
		// DuringSleep(k, period, f): f runs while the code under test is in its k-th time.Sleep from now
		m.sleepHooks = append(m.sleepHooks, sleepHook{k: m.sleepN + int(m.argInt(args[0], name)), f: args[2].(*FuncV)})
		return nil
	case "RunPendingNamed":
		// run only the recorded go tasks whose function name contains the given text
		want := m.argStr(args[0], name)
		tasks := m.pendingGo
		m.pendingGo = nil
		var keep []GoTask
		for _, t := range tasks {
			fn := ""
			if t.Fn != nil {
				fn = t.Fn.String()
			}
			if strings.Contains(fn, want) {
				m.runGo(t, g)
			} else {
				keep = append(keep, t)
			}
		}
		m.pendingGo = append(keep, m.pendingGo...)
		return nil
	case "DropPending":
		m.pendingGo = nil
		return nil
	case "Watch":
		lp, _ := unwrapIface(args[0])
		root, _ := unwrapIface(args[1])
		lw := &lockWatch{objs: map[*Object]bool{}, lock: lp.(*PtrV)}
		m.walk(root, TS.True, func(o *Object, g *Term) bool {
			if lw.objs[o] {
				return false
			}
			lw.objs[o] = true
			return true
		})
		m.lockWatch = lw
		return nil
	case "Unwatch":
		n := 0
		if m.lockWatch != nil {
			n = m.lockWatch.n
		}
		m.lockWatch = nil
		return ConstI(64, int64(n))
	case "LockHeld":
		p, _ := unwrapIface(args[0])
		return m.lockHeld(p.(*PtrV))
	case "LockAcquired":
		// ghost: has the mutex been acquired (read or write) at least once since the run began /
		// since the last ResetLockAcquired
		p, _ := unwrapIface(args[0])
		var res *Term = TS.False
		for _, a := range p.(*PtrV).Alts {
			key := fmt.Sprintf("lock#%d%v", a.Obj.id, a.Path)
			if t, ok := m.ghost[key+"acq"].(*Term); ok {
				res = Or(res, And(a.G, t))
			}
		}
		return res
	case "ResetLockAcquired":
		p, _ := unwrapIface(args[0])
		for _, a := range p.(*PtrV).Alts {
			delete(m.ghost, fmt.Sprintf("lock#%d%v", a.Obj.id, a.Path)+"acq")
		}
		return nil
	case "Finish", "Reset":
		return nil
	}
	panic(notEncoded("unknown verifrt function %s", name))
}

// walk visits every heap object reachable from v; visit returns false to stop
// descending (already seen).
func (m *Machine) walk(v Value, g *Term, visit func(o *Object, g *Term) bool) {
	switch x := v.(type) {
	case nil, *Term, *OpaqueV, *RangeIter:
	case *StructV:
		for _, f := range x.F {
			m.walk(f, g, visit)
		}
	case *ArrayV:
		for _, e := range x.E {
			m.walk(e, g, visit)
		}
	case *TupleV:
		for _, e := range x.E {
			m.walk(e, g, visit)
		}
	case *PtrV:
		for _, a := range x.Alts {
			ng := And(g, a.G)
			if visit(a.Obj, ng) {
				m.walk(a.Obj.val, ng, visit)
			}
		}
	case *SliceV:
		for _, a := range x.Alts {
			ng := And(g, a.G)
			if visit(a.Obj, ng) {
				m.walk(a.Obj.val, ng, visit)
			}
		}
	case *MapV:
		for _, a := range x.Alts {
			ng := And(g, a.G)
			if visit(a.Obj, ng) {
				m.walk(a.Obj.val, ng, visit)
			}
		}
	case *ChanV:
		for _, a := range x.Alts {
			visit(a.Obj, And(g, a.G))
		}
	case *MapContent:
		for _, e := range x.Entries {
			m.walk(e.K, g, visit)
			m.walk(e.V, g, visit)
		}
	case *ChanContent:
	case *FuncV:
		for _, a := range x.Alts {
			for _, b := range a.Bind {
				m.walk(b, And(g, a.G), visit)
			}
		}
	case *IfaceV:
		for _, a := range x.Alts {
			m.walk(a.V, And(g, a.G), visit)
		}
	case *JSONBlob:
		m.walk(x.V, g, visit)
	default:
		panic(notEncoded("walk %T", v))
	}
}

// sameState: structural equality between the snapshot's view of old and the
// current heap's view of cur.
func (m *Machine) sameState(s *snapshot, old, cur Value, seen map[[2]*Object]bool) *Term {
	oldVal := func(o *Object) Value {
		if v, ok := s.objs[o]; ok {
			return v
		}
		return o.val
	}
	switch x := old.(type) {
	case nil:
		return TS.True
	case *Term:
		return Eq(x, cur.(*Term))
	case *OpaqueV:
		return TS.True
	case *StructV:
		y := cur.(*StructV)
		var cs []*Term
		for i := range x.F {
			cs = append(cs, m.sameState(s, x.F[i], y.F[i], seen))
		}
		return And(cs...)
	case *ArrayV:
		y := cur.(*ArrayV)
		var cs []*Term
		for i := range x.E {
			cs = append(cs, m.sameState(s, x.E[i], y.E[i], seen))
		}
		return And(cs...)
	case *PtrV:
		y := cur.(*PtrV)
		ds := []*Term{And(isNilPtr(x), isNilPtr(y))}
		for _, p := range x.Alts {
			for _, q := range y.Alts {
				pg := And(p.G, q.G)
				if pg.IsFalse() {
					continue
				}
				key := [2]*Object{p.Obj, q.Obj}
				if seen[key] && len(p.Path) == 0 && len(q.Path) == 0 {
					ds = append(ds, pg)
					continue
				}
				seen[key] = true
				ds = append(ds, And(pg, m.sameState(s, getPath(oldVal(p.Obj), p.Path), getPath(q.Obj.val, q.Path), seen)))
			}
		}
		return Or(ds...)
	case *SliceV:
		y := cur.(*SliceV)
		cs := []*Term{Eq(x.Len, y.Len)}
		n := 0
		for _, a := range x.Alts {
			if k := len(oldVal(a.Obj).(*ArrayV).E) - a.Off; k > n {
				n = k
			}
		}
		if l, ok := concreteInt(x.Len); ok {
			n = int(l)
		}
		for i := 0; i < n; i++ {
			var ov, nv Value
			for k := len(x.Alts) - 1; k >= 0; k-- {
				a := x.Alts[k]
				arr := oldVal(a.Obj).(*ArrayV)
				if a.Off+i >= len(arr.E) {
					continue
				}
				if ov == nil {
					ov = arr.E[a.Off+i]
				} else {
					ov = mergeValue(a.G, arr.E[a.Off+i], ov)
				}
			}
			nv = m.sliceElem(y, i)
			inRange := Slt(ConstI(64, int64(i)), x.Len)
			if ov == nil || nv == nil {
				cs = append(cs, Not(inRange))
				continue
			}
			cs = append(cs, Implies(inRange, m.sameState(s, ov, nv, seen)))
		}
		return And(cs...)
	case *MapV:
		y := cur.(*MapV)
		cs := []*Term{}
		oldLen := Const(64, 0)
		for _, a := range x.Alts {
			c := oldVal(a.Obj).(*MapContent)
			for _, e := range c.Entries {
				p := And(a.G, e.P)
				if p.IsFalse() {
					continue
				}
				oldLen = Add(oldLen, Ite(p, Const(64, 1), Const(64, 0)))
				// find the entry in the current map
				found := TS.False
				for _, b := range y.Alts {
					for _, e2 := range b.Obj.val.(*MapContent).Entries {
						hit := And(b.G, e2.P, valueEq(e.K, e2.K))
						if hit.IsFalse() {
							continue
						}
						found = Or(found, And(hit, m.sameState(s, e.V, e2.V, seen)))
					}
				}
				cs = append(cs, Implies(p, found))
			}
		}
		cs = append(cs, Eq(oldLen, m.mapLen(y)))
		return And(cs...)
	case *IfaceV:
		y := cur.(*IfaceV)
		ds := []*Term{And(isNilValue(x), isNilValue(y))}
		for _, p := range x.Alts {
			for _, q := range y.Alts {
				if types.Identical(p.T, q.T) {
					ds = append(ds, And(p.G, q.G, m.sameState(s, p.V, q.V, seen)))
				}
			}
		}
		return Or(ds...)
	case *FuncV:
		y := cur.(*FuncV)
		ds := []*Term{And(isNilValue(x), isNilValue(y))}
		for _, p := range x.Alts {
			for _, q := range y.Alts {
				if sameFunc(p, q) {
					ds = append(ds, And(p.G, q.G))
				}
			}
		}
		return Or(ds...)
	case *ChanV:
		return refsEq(x.Alts, cur.(*ChanV).Alts)
	}
	panic(notEncoded("sameState on %T", old))
}

// ---------- encoding/json round trip = deep copy honouring tags ----------

func jsonMarshal(m *Machine, args []Value, g *Term, site ssa.Instruction) Value {
	m.stubsUsed["encoding/json Marshal/Unmarshal = deep copy of the exported, tagged part"]++
	v, t := unwrapIface(args[0])
	if v == nil {
		panic(notEncoded("json.Marshal(nil)"))
	}
	blob := &JSONBlob{V: m.jsonCopy(v, t, false), T: t}
	return &TupleV{E: []Value{blob, errNil()}}
}

func jsonUnmarshal(m *Machine, args []Value, g *Term, site ssa.Instruction) Value {
	blob, ok := args[0].(*JSONBlob)
	if !ok {
		panic(notEncoded("json.Unmarshal of non-marshalled data (%T)", args[0]))
	}
	dst, dt := unwrapIface(args[1])
	p, ok := dst.(*PtrV)
	if !ok {
		panic(notEncoded("json.Unmarshal into %T", dst))
	}
	et := dt.Underlying().(*types.Pointer).Elem()
	src, st := blob.V, blob.T
	// marshalling *T and T produce the same document
	if pt, ok := st.Underlying().(*types.Pointer); ok && !types.Identical(st, et) {
		sp := src.(*PtrV)
		// "null" leaves the target untouched; the targets in this code base are fresh zero variables
		var merged Value = m.zero(pt.Elem())
		for i := len(sp.Alts) - 1; i >= 0; i-- {
			merged = mergeValue(sp.Alts[i].G, getPath(sp.Alts[i].Obj.val, sp.Alts[i].Path), merged)
		}
		src = merged
		st = pt.Elem()
	}
	if !types.Identical(st, et) {
		panic(notEncoded("json round trip between different types %v -> %v", st, et))
	}
	// decoding into a pointer variable that already points somewhere writes INTO the existing
	// pointee (encoding/json allocates only for nil pointers): whoever shares that object sees
	// the decoded value. Modelled one level deep; fields the document omits are overwritten too
	// (the documents here come from Marshal of the same type, so only omitempty fields differ).
	if ept, ok := et.Underlying().(*types.Pointer); ok {
		if cur, ok := m.load(p, g, site).(*PtrV); ok && cur != nil && len(cur.Alts) > 0 {
			sp, _ := src.(*PtrV)
			if sp != nil && len(sp.Alts) > 0 {
				var doc Value = m.zero(ept.Elem())
				for i := len(sp.Alts) - 1; i >= 0; i-- {
					doc = mergeValue(sp.Alts[i].G, getPath(sp.Alts[i].Obj.val, sp.Alts[i].Path), doc)
				}
				srcNonNil := Not(isNilPtr(sp))
				nonNil := Not(isNilPtr(cur))
				// existing pointee(s) receive the decoded struct
				m.store(cur, m.jsonCopy(doc, ept.Elem(), false), And(g, nonNil, srcNonNil), site)
				// a nil target gets a fresh object as before; "null" sets the pointer to nil
				fresh := m.jsonCopy(src, et, false)
				m.store(p, mergeValue(nonNil, mergeValue(srcNonNil, cur, &PtrV{}), fresh), g, site)
				m.stubsUsed["json.Unmarshal into a non-nil pointer decodes into the existing object"]++
				return errNil()
			}
		}
	}
	if _, isStruct := et.Underlying().(*types.Struct); isStruct {
		if cur := m.load(p, g, site); cur != nil && !syntacticZero(cur) {
			// decoding into a struct that already holds data (a reused target): keys the document
			// omits (omitempty) keep their old value, non-nil pointers and existing slice elements
			// are decoded INTO, as encoding/json does
			m.stubsUsed["json.Unmarshal into a non-zero struct merges into the existing value"]++
			m.store(p, m.jsonInto(cur, src, et, false, g, site), g, site)
			return errNil()
		}
	}
	m.store(p, m.jsonCopy(src, et, false), g, site)
	return errNil()
}

// syntacticZero: the value is visibly the zero value of its type (fresh target).
func syntacticZero(v Value) bool {
	switch x := v.(type) {
	case *Term:
		return x.IsConst() && x.val == 0 || x.IsFalse()
	case *StructV:
		for _, f := range x.F {
			if f != nil && !syntacticZero(f) {
				return false
			}
		}
		return true
	case *ArrayV:
		for _, e := range x.E {
			if e != nil && !syntacticZero(e) {
				return false
			}
		}
		return true
	case *PtrV:
		return len(x.Alts) == 0
	case *SliceV:
		return len(x.Alts) == 0
	case *MapV:
		return len(x.Alts) == 0
	case *IfaceV:
		return len(x.Alts) == 0
	case *FuncV:
		return len(x.Alts) == 0
	case *ChanV:
		return len(x.Alts) == 0
	case nil:
		return true
	}
	return false
}

// jsonEmpty: the condition under which encoding/json's omitempty drops the value.
func jsonEmpty(v Value, t types.Type) *Term {
	switch t.Underlying().(type) {
	case *types.Basic:
		x := v.(*Term)
		if x.sort.W == 0 {
			return Not(x)
		}
		return Eq(x, Const(x.sort.W, 0))
	case *types.Pointer, *types.Interface:
		return isNilValue(v)
	case *types.Slice:
		x := v.(*SliceV)
		return Or(isNilValue(x), Eq(x.Len, Const(64, 0)))
	case *types.Map:
		return isNilValue(v) // (an empty non-nil map is dropped too; the maps here are never reused targets)
	}
	return TS.False
}

// jsonInto decodes the document value src (of type t) into a target that currently holds dst.
func (m *Machine) jsonInto(dst, src Value, t types.Type, omitempty bool, g *Term, site ssa.Instruction) Value {
	if dst == nil || syntacticZero(dst) {
		v := m.jsonCopy(src, t, omitempty)
		return v
	}
	keepIfOmitted := func(decoded Value) Value {
		if !omitempty {
			return decoded
		}
		e := jsonEmpty(src, t)
		if e.IsFalse() {
			return decoded
		}
		return mergeValue(e, dst, decoded)
	}
	switch u := t.Underlying().(type) {
	case *types.Basic:
		return keepIfOmitted(src)
	case *types.Struct:
		d, x := dst.(*StructV), src.(*StructV)
		r := &StructV{F: make([]Value, len(x.F))}
		for i := range x.F {
			skip, oe := jsonTag(u, i)
			if skip {
				r.F[i] = d.F[i]
				continue
			}
			r.F[i] = m.jsonInto(d.F[i], x.F[i], u.Field(i).Type(), oe, g, site)
		}
		return r
	case *types.Pointer:
		dp, sp := dst.(*PtrV), src.(*PtrV)
		if len(sp.Alts) == 0 {
			// null: the pointer becomes nil (kept when omitempty dropped the key)
			if omitempty {
				return dst
			}
			return &PtrV{}
		}
		var doc Value = m.zero(u.Elem())
		for i := len(sp.Alts) - 1; i >= 0; i-- {
			doc = mergeValue(sp.Alts[i].G, getPath(sp.Alts[i].Obj.val, sp.Alts[i].Path), doc)
		}
		srcNonNil := Not(isNilPtr(sp))
		dstNonNil := Not(isNilPtr(dp))
		// existing pointees are decoded into, in place
		for _, a := range dp.Alts {
			one := &PtrV{Alts: []PtrAlt{{TS.True, a.Obj, a.Path}}}
			cur := getPath(a.Obj.val, a.Path)
			m.store(one, m.jsonInto(cur, doc, u.Elem(), false, And(g, a.G, srcNonNil), site), And(g, a.G, srcNonNil), site)
		}
		fresh := m.jsonCopy(src, t, false)
		var onNull Value = &PtrV{}
		if omitempty {
			onNull = dst
		}
		return mergeValue(srcNonNil, mergeValue(dstNonNil, dst, fresh), onNull)
	case *types.Slice:
		dsl, ssl := dst.(*SliceV), src.(*SliceV)
		if len(ssl.Alts) == 0 {
			if omitempty {
				return dst
			}
			return &SliceV{Len: Const(64, 0)}
		}
		n := m.sliceCapMax(ssl)
		if l, ok := concreteInt(ssl.Len); ok {
			n = int(l)
		}
		dcap := m.sliceCapMax(dsl)
		arr := &ArrayV{E: make([]Value, n)}
		for i := 0; i < n; i++ {
			e := m.sliceElem(ssl, i)
			if e == nil {
				arr.E[i] = m.zero(u.Elem())
				continue
			}
			// elements inside the old capacity are decoded into (their pointees are reused)
			var old Value
			if i < dcap {
				old = m.sliceElem(dsl, i)
			}
			arr.E[i] = m.jsonInto(old, e, u.Elem(), false, And(g, Slt(ConstI(64, int64(i)), ssl.Len)), site)
		}
		o := m.newObject(arr, u.Elem(), "json")
		decoded := Value(&SliceV{Alts: []SliceAlt{{Not(isNilValue(ssl)), o, 0, 0}}, Len: ssl.Len})
		if omitempty {
			return keepIfOmitted(decoded)
		}
		return decoded
	case *types.Map:
		if dm, ok := dst.(*MapV); ok && len(dm.Alts) > 0 {
			for _, a := range dm.Alts {
				if len(a.Obj.val.(*MapContent).Entries) > 0 {
					panic(notEncoded("json.Unmarshal into a non-empty map (existing entries are kept by encoding/json)"))
				}
			}
		}
		return keepIfOmitted(m.jsonCopy(src, t, false))
	case *types.Array:
		d, x := dst.(*ArrayV), src.(*ArrayV)
		r := &ArrayV{E: make([]Value, len(x.E))}
		for i := range x.E {
			r.E[i] = m.jsonInto(d.E[i], x.E[i], u.Elem(), false, g, site)
		}
		return r
	}
	return keepIfOmitted(m.jsonCopy(src, t, omitempty))
}

func jsonTag(st *types.Struct, i int) (skip, omitempty bool) {
	f := st.Field(i)
	tag := reflect.StructTag(st.Tag(i)).Get("json")
	if tag == "-" {
		return true, false
	}
	if !f.Exported() {
		return true, false
	}
	return false, strings.Contains(tag, ",omitempty")
}

func (m *Machine) jsonCopy(v Value, t types.Type, omitempty bool) Value {
	switch u := t.Underlying().(type) {
	case *types.Basic:
		return v
	case *types.Struct:
		x := v.(*StructV)
		r := &StructV{F: make([]Value, len(x.F))}
		for i := range x.F {
			skip, oe := jsonTag(u, i)
			if skip {
				r.F[i] = m.zero(u.Field(i).Type())
				continue
			}
			r.F[i] = m.jsonCopy(x.F[i], u.Field(i).Type(), oe)
		}
		return r
	case *types.Pointer:
		x := v.(*PtrV)
		r := &PtrV{}
		for _, a := range x.Alts {
			o := m.newObject(m.jsonCopy(getPath(a.Obj.val, a.Path), u.Elem(), false), u.Elem(), "json")
			r.Alts = append(r.Alts, PtrAlt{a.G, o, nil})
		}
		return r
	case *types.Slice:
		x := v.(*SliceV)
		if len(x.Alts) == 0 {
			return &SliceV{Len: Const(64, 0)}
		}
		n := m.sliceCapMax(x)
		if l, ok := concreteInt(x.Len); ok {
			n = int(l)
		}
		arr := &ArrayV{E: make([]Value, n)}
		for i := 0; i < n; i++ {
			e := m.sliceElem(x, i)
			if e == nil {
				arr.E[i] = m.zero(u.Elem())
				continue
			}
			arr.E[i] = m.jsonCopy(e, u.Elem(), false)
		}
		o := m.newObject(arr, u.Elem(), "json")
		g := Not(isNilValue(x))
		if omitempty {
			g = And(g, Not(Eq(x.Len, Const(64, 0))))
		}
		if g.IsFalse() {
			return &SliceV{Len: Const(64, 0)}
		}
		return &SliceV{Alts: []SliceAlt{{g, o, 0, 0}}, Len: x.Len}
	case *types.Map:
		x := v.(*MapV)
		if len(x.Alts) == 0 {
			return &MapV{}
		}
		nc := &MapContent{}
		for _, a := range x.Alts {
			for _, e := range a.Obj.val.(*MapContent).Entries {
				p := And(a.G, e.P)
				if p.IsFalse() {
					continue
				}
				nc.Entries = append(nc.Entries, MapEntry{K: e.K, P: p, V: m.jsonCopy(e.V, u.Elem(), false)})
			}
		}
		o := m.newObject(nc, t, "json")
		return &MapV{Alts: []RefAlt{{Not(refNil(x.Alts)), o}}}
	case *types.Array:
		x := v.(*ArrayV)
		r := &ArrayV{E: make([]Value, len(x.E))}
		for i := range x.E {
			r.E[i] = m.jsonCopy(x.E[i], u.Elem(), false)
		}
		return r
	}
	panic(notEncoded("json copy of %v", t))
}

// ---------- time ----------

// time.Time is kept as its real struct {wall, ext, loc}; ext holds the Unix
// seconds, wall an opaque nanosecond stamp.  Durations are nanoseconds; only
// k*time.Second shapes are accepted by Add.
func (m *Machine) timeVal(sec, nano *Term) Value {
	return &StructV{F: []Value{nano, sec, &PtrV{}}}
}

func durSeconds(d *Term) (*Term, bool) {
	const e9 = 1000000000
	if d.IsConst() {
		return ConstI(64, d.Int()/e9), true
	}
	if d.op == OpMul {
		if d.args[1].IsConst() && d.args[1].Int() == e9 {
			return d.args[0], true
		}
		if d.args[0].IsConst() && d.args[0].Int() == e9 {
			return d.args[1], true
		}
	}
	if d.op == OpIte {
		a, ok1 := durSeconds(d.args[1])
		b, ok2 := durSeconds(d.args[2])
		if ok1 && ok2 {
			return Ite(d.args[0], a, b), true
		}
	}
	return nil, false
}

func timeIntrinsics() map[string]intrinsicFn {
	return map[string]intrinsicFn{
		"time.Now": func(m *Machine, args []Value, g *Term, site ssa.Instruction) Value {
			m.stubsUsed["time.Now = fresh non-decreasing instant"]++
			sec := m.fresh("now", BV(64))
			nano := m.fresh("nano", BV(64))
			lastS, _ := m.ghost["now.sec"].(*Term)
			lastN, _ := m.ghost["now.nano"].(*Term)
			if lastS == nil {
				lastS, lastN = Const(64, 0), Const(64, 0)
			}
			m.assume(And(Sge(sec, lastS), Slt(sec, ConstI(64, 1<<40)), Sge(nano, lastN), Slt(nano, ConstI(64, 1<<62))))
			m.ghost["now.sec"], m.ghost["now.nano"] = sec, nano
			return m.timeVal(sec, nano)
		},
		"time.Unix": func(m *Machine, args []Value, g *Term, site ssa.Instruction) Value {
			return m.timeVal(args[0].(*Term), UF("nanoOf", BV(64), args[0].(*Term), args[1].(*Term)))
		},
		"(time.Time).Unix": func(m *Machine, args []Value, g *Term, site ssa.Instruction) Value {
			return args[0].(*StructV).F[1]
		},
		"(time.Time).UnixNano": func(m *Machine, args []Value, g *Term, site ssa.Instruction) Value {
			return args[0].(*StructV).F[0]
		},
		"(time.Time).Add": func(m *Machine, args []Value, g *Term, site ssa.Instruction) Value {
			t := args[0].(*StructV)
			s, ok := durSeconds(args[1].(*Term))
			if !ok {
				panic(notEncoded("time.Add of a duration that is not k*time.Second"))
			}
			sec := Add(t.F[1].(*Term), s)
			return m.timeVal(sec, UF("nanoAdd", BV(64), t.F[0].(*Term), args[1].(*Term)))
		},
		"(time.Time).Before": func(m *Machine, args []Value, g *Term, site ssa.Instruction) Value {
			return Slt(args[0].(*StructV).F[1].(*Term), args[1].(*StructV).F[1].(*Term))
		},
		"(time.Time).After": func(m *Machine, args []Value, g *Term, site ssa.Instruction) Value {
			return Sgt(args[0].(*StructV).F[1].(*Term), args[1].(*StructV).F[1].(*Term))
		},
		"(time.Time).String": func(m *Machine, args []Value, g *Term, site ssa.Instruction) Value {
			return m.fresh("timestr", BV(strW))
		},
	}
}
