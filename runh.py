#!/usr/bin/env python3
# dev helper: runh.py <pkg-rel> <cfg k=v,...> harness1 harness2 ...  (parallel, one process each)
import sys, json, subprocess, os, concurrent.futures as cf
pkg, cfg, hs = sys.argv[1], sys.argv[2], sys.argv[3:]
cfgd = {k: int(v) for k, v in (kv.split("=") for kv in cfg.split(",") if kv)}
full = "github.com/weedbox/pokertable" + ("/" + pkg if pkg not in (".", "root", "") else "")
def run(h):
    out = "/tmp/runh_%s.json" % h
    cmd = ["timeout", os.environ.get("T", "300"), "/verif/bin/symgo", "run", "-solver", "z3-new", "-pkg", full, "-harness", h, "-cfg", cfg, "-out", out, "-repo", os.environ.get("REPO", "/repo")]
    r = subprocess.run(cmd, capture_output=True, text=True)
    s = subprocess.run(["python3", "/verif/show.py", out], capture_output=True, text=True).stdout if os.path.exists(out) else ""
    return h, r.stderr[-600:], s
with cf.ThreadPoolExecutor(max_workers=12) as ex:
    for h, err, s in ex.map(run, hs):
        print(err.strip().splitlines()[-1] if err.strip() else "(no stderr)")
        print(s)
