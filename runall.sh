#!/bin/bash
# dev helper: run every registered check at the given tier, sequentially, print the summary lines
tier=${1:-quick}
cd /verif
for p in $(python3 -c "import json; print(' '.join(sorted(json.load(open('checks.json')).keys())))"); do
  s=$(date +%s)
  out=$(timeout 3600 ./check $p $tier 2>&1)
  rc=$?
  echo "$p rc=$rc $(( $(date +%s) - s ))s :: $(echo "$out" | tail -1)"
  echo "$out" | grep -E "^(VIOLATION|MACHINERY)" | head -5
done
