package verifrt

import (
	"reflect"
	"unsafe"
)

func unsafePointer(f reflect.Value) unsafe.Pointer {
	return unsafe.Pointer(f.UnsafeAddr())
}

// unsafePointerRO returns the address of field i of an addressable struct.
func unsafePointerRO(s reflect.Value, i int) unsafe.Pointer {
	if !s.CanAddr() {
		// make an addressable copy
		c := reflect.New(s.Type()).Elem()
		c.Set(s)
		s = c
	}
	return unsafe.Pointer(s.Field(i).UnsafeAddr())
}
