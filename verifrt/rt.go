// Package verifrt is the harness runtime.  The symbolic executor (symgo)
// intercepts every function of this package; the bodies below are the native
// meaning used when a solver witness is replayed against the real build
// (go test -overlay) and when the conformance mode compares the executor with
// the compiled code.  This file is injected through an overlay; it is never
// written into the repository under test.
package verifrt

import (
	"encoding/json"
	"fmt"
	"os"
	"reflect"
	"sort"
	"strings"
	"sync"
	"time"
)

type witness struct {
	Cfg  map[string]int64  `json:"cfg"`
	Vals map[string]int64  `json:"vals"`
	Strs map[string]string `json:"strs"`
}

var (
	mu       sync.Mutex
	w        *witness
	failures []string
	assumeKO []string
	observes []string
	snaps    []interface{}
)

func load() *witness {
	if w != nil {
		return w
	}
	w = &witness{Cfg: map[string]int64{}, Vals: map[string]int64{}, Strs: map[string]string{}}
	if p := os.Getenv("VERIFRT_WITNESS"); p != "" {
		b, err := os.ReadFile(p)
		if err != nil {
			panic("verifrt: cannot read witness: " + err.Error())
		}
		if err := json.Unmarshal(b, w); err != nil {
			panic("verifrt: bad witness: " + err.Error())
		}
	}
	return w
}

// Reset clears the recorded outcome (between two replays in one process).
func Reset() {
	mu.Lock()
	defer mu.Unlock()
	failures, assumeKO, observes, snaps = nil, nil, nil, nil
}

func Cfg(name string) int {
	v, ok := load().Cfg[name]
	if !ok {
		panic("verifrt: no configuration value " + name)
	}
	return int(v)
}

func key(name string, i int) string { return fmt.Sprintf("%s[%d]", name, i) }

func Int(name string) int              { return int(load().Vals[name]) }
func IntI(name string, i int) int      { return int(load().Vals[key(name, i)]) }
func Int64(name string) int64          { return load().Vals[name] }
func Int64I(name string, i int) int64  { return load().Vals[key(name, i)] }

// IntRange returns an arbitrary value in [lo,hi].
func IntRange(name string, lo, hi int) int {
	v := int(load().Vals[name])
	if v < lo || v > hi {
		Assume(false)
	}
	return v
}

func IntRangeI(name string, i, lo, hi int) int { return IntRange(key(name, i), lo, hi) }

func Bool(name string) bool            { return load().Vals[name] != 0 }
func BoolI(name string, i int) bool    { return load().Vals[key(name, i)] != 0 }
func Str(name string) string           { return load().Strs[name] }
func StrI(name string, i int) string   { return load().Strs[key(name, i)] }

func Assume(b bool) {
	if !b {
		mu.Lock()
		assumeKO = append(assumeKO, "assumption false")
		mu.Unlock()
	}
}

func Assert(b bool, label string) {
	if !b {
		mu.Lock()
		failures = append(failures, label)
		mu.Unlock()
	}
}

func Reach(label string) {}

func KF(name string, b bool) {}

func Observe(name string, v interface{}) {
	mu.Lock()
	observes = append(observes, fmt.Sprintf("%s=%s", name, render(v)))
	mu.Unlock()
}

func render(v interface{}) string {
	switch x := v.(type) {
	case string:
		return fmt.Sprintf("%q", x)
	case bool:
		return fmt.Sprint(x)
	}
	rv := reflect.ValueOf(v)
	switch rv.Kind() {
	case reflect.Int, reflect.Int8, reflect.Int16, reflect.Int32, reflect.Int64:
		return fmt.Sprint(rv.Int())
	case reflect.Uint, reflect.Uint8, reflect.Uint16, reflect.Uint32, reflect.Uint64:
		return fmt.Sprint(int64(rv.Uint()))
	case reflect.String:
		return fmt.Sprintf("%q", rv.String())
	case reflect.Bool:
		return fmt.Sprint(rv.Bool())
	}
	return fmt.Sprintf("%T", v)
}

// Snap identifies a deep copy taken by Snapshot.
type Snap struct{ ID int }

func Snapshot(p interface{}) Snap {
	mu.Lock()
	defer mu.Unlock()
	snaps = append(snaps, deepCopy(reflect.ValueOf(p), map[uintptr]reflect.Value{}).Interface())
	return Snap{ID: len(snaps) - 1}
}

// SameState reports whether p is structurally equal to the snapshot (nil and
// empty slices/maps are not distinguished; unexported function and channel
// fields are compared by identity).
func SameState(s Snap, p interface{}) bool {
	mu.Lock()
	old := snaps[s.ID]
	mu.Unlock()
	return same(reflect.ValueOf(old), reflect.ValueOf(p), map[[2]uintptr]bool{})
}

func deepCopy(v reflect.Value, seen map[uintptr]reflect.Value) reflect.Value {
	if !v.IsValid() {
		return v
	}
	switch v.Kind() {
	case reflect.Ptr:
		if v.IsNil() {
			return v
		}
		if c, ok := seen[v.Pointer()]; ok {
			return c
		}
		n := reflect.New(v.Type().Elem())
		seen[v.Pointer()] = n
		copyInto(n.Elem(), v.Elem(), seen)
		return n
	case reflect.Interface:
		if v.IsNil() {
			return v
		}
		n := reflect.New(v.Type()).Elem()
		n.Set(deepCopy(v.Elem(), seen))
		return n
	default:
		n := reflect.New(v.Type()).Elem()
		copyInto(n, v, seen)
		return n
	}
}

func copyInto(dst, src reflect.Value, seen map[uintptr]reflect.Value) {
	switch src.Kind() {
	case reflect.Struct:
		for i := 0; i < src.NumField(); i++ {
			df := dst.Field(i)
			sf := src.Field(i)
			if !df.CanSet() {
				// unexported: copy through unsafe-free shallow path when possible
				df = reflect.NewAt(df.Type(), unsafePointer(df)).Elem()
				sf = reflect.NewAt(sf.Type(), unsafePointerRO(src, i)).Elem()
			}
			if isSyncType(sf.Type()) {
				continue
			}
			copyInto(df, sf, seen)
		}
	case reflect.Slice:
		if src.IsNil() {
			return
		}
		n := reflect.MakeSlice(src.Type(), src.Len(), src.Len())
		for i := 0; i < src.Len(); i++ {
			copyInto(n.Index(i), src.Index(i), seen)
		}
		dst.Set(n)
	case reflect.Array:
		for i := 0; i < src.Len(); i++ {
			copyInto(dst.Index(i), src.Index(i), seen)
		}
	case reflect.Map:
		if src.IsNil() {
			return
		}
		n := reflect.MakeMapWithSize(src.Type(), src.Len())
		it := src.MapRange()
		for it.Next() {
			ev := reflect.New(src.Type().Elem()).Elem()
			copyInto(ev, it.Value(), seen)
			n.SetMapIndex(it.Key(), ev)
		}
		dst.Set(n)
	case reflect.Ptr, reflect.Interface:
		c := deepCopy(src, seen)
		if c.IsValid() {
			dst.Set(c)
		}
	default:
		dst.Set(src)
	}
}

func isSyncType(t reflect.Type) bool {
	return t.PkgPath() == "sync" || t.PkgPath() == "sync/atomic"
}

func same(a, b reflect.Value, seen map[[2]uintptr]bool) bool {
	if !a.IsValid() || !b.IsValid() {
		return a.IsValid() == b.IsValid()
	}
	if a.Type() != b.Type() {
		return false
	}
	switch a.Kind() {
	case reflect.Ptr:
		if a.IsNil() || b.IsNil() {
			return a.IsNil() == b.IsNil()
		}
		k := [2]uintptr{a.Pointer(), b.Pointer()}
		if seen[k] {
			return true
		}
		seen[k] = true
		return same(a.Elem(), b.Elem(), seen)
	case reflect.Interface:
		if a.IsNil() || b.IsNil() {
			return a.IsNil() == b.IsNil()
		}
		return same(a.Elem(), b.Elem(), seen)
	case reflect.Struct:
		for i := 0; i < a.NumField(); i++ {
			if isSyncType(a.Field(i).Type()) {
				continue
			}
			af, bf := a.Field(i), b.Field(i)
			if !af.CanInterface() {
				af = reflect.NewAt(af.Type(), unsafePointerRO(a, i)).Elem()
				bf = reflect.NewAt(bf.Type(), unsafePointerRO(b, i)).Elem()
			}
			if !same(af, bf, seen) {
				return false
			}
		}
		return true
	case reflect.Slice:
		if a.Len() != b.Len() {
			return false
		}
		for i := 0; i < a.Len(); i++ {
			if !same(a.Index(i), b.Index(i), seen) {
				return false
			}
		}
		return true
	case reflect.Array:
		for i := 0; i < a.Len(); i++ {
			if !same(a.Index(i), b.Index(i), seen) {
				return false
			}
		}
		return true
	case reflect.Map:
		if a.Len() != b.Len() {
			return false
		}
		it := a.MapRange()
		for it.Next() {
			bv := b.MapIndex(it.Key())
			if !bv.IsValid() || !same(it.Value(), bv, seen) {
				return false
			}
		}
		return true
	case reflect.Func, reflect.Chan, reflect.UnsafePointer:
		if a.IsNil() || b.IsNil() {
			return a.IsNil() == b.IsNil()
		}
		return a.Pointer() == b.Pointer()
	case reflect.Bool:
		return a.Bool() == b.Bool()
	case reflect.Int, reflect.Int8, reflect.Int16, reflect.Int32, reflect.Int64:
		return a.Int() == b.Int()
	case reflect.Uint, reflect.Uint8, reflect.Uint16, reflect.Uint32, reflect.Uint64, reflect.Uintptr:
		return a.Uint() == b.Uint()
	case reflect.String:
		return a.String() == b.String()
	case reflect.Float32, reflect.Float64:
		return a.Float() == b.Float()
	}
	return false
}

// Disjoint reports whether no heap object (pointer target, slice backing,
// map) reachable from a is reachable from b.
func Disjoint(a, b interface{}) bool {
	ra, rb := map[uintptr]bool{}, map[uintptr]bool{}
	reach(reflect.ValueOf(a), ra)
	reach(reflect.ValueOf(b), rb)
	for p := range ra {
		if rb[p] {
			return false
		}
	}
	return true
}

func reach(v reflect.Value, into map[uintptr]bool) {
	if !v.IsValid() {
		return
	}
	switch v.Kind() {
	case reflect.Ptr:
		if v.IsNil() || into[v.Pointer()] {
			return
		}
		into[v.Pointer()] = true
		reach(v.Elem(), into)
	case reflect.Interface:
		if !v.IsNil() {
			reach(v.Elem(), into)
		}
	case reflect.Struct:
		for i := 0; i < v.NumField(); i++ {
			f := v.Field(i)
			if isSyncType(f.Type()) {
				continue
			}
			if !f.CanInterface() {
				if !v.CanAddr() {
					continue
				}
				f = reflect.NewAt(f.Type(), unsafePointerRO(v, i)).Elem()
			}
			reach(f, into)
		}
	case reflect.Slice:
		if v.IsNil() || v.Cap() == 0 {
			return
		}
		if into[v.Pointer()] {
			return
		}
		into[v.Pointer()] = true
		for i := 0; i < v.Len(); i++ {
			reach(v.Index(i), into)
		}
	case reflect.Array:
		for i := 0; i < v.Len(); i++ {
			reach(v.Index(i), into)
		}
	case reflect.Map:
		if v.IsNil() || into[v.Pointer()] {
			return
		}
		into[v.Pointer()] = true
		it := v.MapRange()
		for it.Next() {
			reach(it.Value(), into)
		}
	}
}

// Pending / RunPending / DropPending: goroutines started by the code under
// test really run natively; RunPending gives them a moment to do so.
func Pending() int  { return 0 }
func RunPending()   { time.Sleep(50 * time.Millisecond) }
func DropPending()  {}

// DuringSleep: f runs while the code under test is in its k-th time.Sleep (each of the given
// length) counted from now. Natively this is timing based: f fires in the middle of that sleep.
func DuringSleep(k int, period time.Duration, f func()) {
	go func() {
		time.Sleep(time.Duration(k-1)*period + period/2)
		f()
	}()
}

// RunPendingNamed: natively the goroutines run by themselves; give them a moment.
func RunPendingNamed(name string) { time.Sleep(50 * time.Millisecond) }

// Watch / Unwatch: lock-discipline instrumentation, only meaningful symbolically
// (natively the real mutexes are used and nothing is checked here).
func Watch(mu interface{}, root interface{}) {}
func Unwatch() int                           { return 1 }

// LockHeld: ghost query, only meaningful symbolically.
func LockHeld(mu interface{}) bool { return false }

// LockAcquired / ResetLockAcquired: ghost queries (has the mutex been taken at least once
// since the reset); natively nothing is observable, the query answers true.
func LockAcquired(mu interface{}) bool { return true }
func ResetLockAcquired(mu interface{}) {}

// Outcome is printed by the generated replay test.
func Outcome() string {
	mu.Lock()
	defer mu.Unlock()
	var sb strings.Builder
	sort.Strings(failures)
	for _, f := range failures {
		fmt.Fprintf(&sb, "VERIFRT-ASSERT-FAIL %s\n", f)
	}
	for range assumeKO {
		fmt.Fprintf(&sb, "VERIFRT-ASSUME-FALSE\n")
	}
	for _, o := range observes {
		fmt.Fprintf(&sb, "VERIFRT-OBSERVE %s\n", o)
	}
	fmt.Fprintf(&sb, "VERIFRT-END failures=%d assume_false=%d\n", len(failures), len(assumeKO))
	return sb.String()
}
