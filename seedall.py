#!/usr/bin/env python3
"""seedall.py [ids...] — regression over the stored seeded changes: each patch is applied to a scratch
worktree of /repo's HEAD (never to /repo), the quick checks recorded in its meta.json are run against
that tree (VERIF_REPO), the worktree is removed. Writes seeded/REGRESSION.md."""
import sys, os, json, subprocess, concurrent.futures as cf, time, shutil
V = os.path.dirname(os.path.abspath(__file__))
ENV = dict(os.environ, GOFLAGS="-mod=mod", GOPROXY="off", GOSUMDB="off", GOTOOLCHAIN="local")
ids = sys.argv[1:] or sorted(d for d in os.listdir(os.path.join(V, "seeded")) if os.path.isdir(os.path.join(V, "seeded", d)))
base = os.environ.get("SEEDALL_BASE", "/tmp/verif-seedall")
os.makedirs(base, exist_ok=True)
head = subprocess.run(["git", "-C", "/repo", "rev-parse", "--short", "HEAD"], capture_output=True, text=True).stdout.strip()

def one(sid):
    d = os.path.join(V, "seeded", sid)
    meta = json.load(open(os.path.join(d, "meta.json")))
    props = meta.get("checked_with") or [meta["breaks_property"]]
    # the property the seed was written against first, then the others that were used
    props = [meta["breaks_property"]] + [p for p in props if p != meta["breaks_property"]]
    wt = os.path.join(base, sid)
    subprocess.run(["git", "-C", "/repo", "worktree", "remove", "--force", wt], capture_output=True)
    r = subprocess.run(["git", "-C", "/repo", "worktree", "add", "-q", "--detach", wt, "HEAD"], capture_output=True, text=True)
    if r.returncode != 0:
        return sid, "worktree failed: " + r.stderr.strip(), []
    try:
        patch = os.path.join(d, "patch.diff")
        r = subprocess.run(["git", "-C", wt, "apply", patch], capture_output=True, text=True)
        if r.returncode != 0:
            r = subprocess.run(["git", "-C", wt, "apply", "-3", patch], capture_output=True, text=True)
            if r.returncode != 0:
                return sid, "patch no longer applies to %s (code it changes was repaired or moved)" % head, []
        r = subprocess.run(["go", "build", "./..."], cwd=wt, env=ENV, capture_output=True, text=True)
        if r.returncode != 0:
            return sid, "does not build on %s" % head, []
        res = []
        for p in props:
            t0 = time.time()
            e = dict(ENV, VERIF_REPO=wt, VERIF_JOBS="5", VERIF_EVIDENCE_DIR=os.path.join(base, "evidence-" + sid))
            r = subprocess.run(["./check", p, "quick"], cwd=V, env=e, capture_output=True, text=True, timeout=3000)
            lines = [l for l in r.stdout.splitlines() if l.startswith("VIOLATION") or l.startswith("  harness")]
            res.append((p, r.returncode, round(time.time() - t0), lines[1][:200].strip() if len(lines) > 1 else ""))
            if r.returncode == 1:
                break
        return sid, "ok", res
    finally:
        subprocess.run(["git", "-C", "/repo", "worktree", "remove", "--force", wt], capture_output=True)
        shutil.rmtree(os.path.join(base, "evidence-" + sid), ignore_errors=True)

rows = []
with cf.ThreadPoolExecutor(max_workers=int(os.environ.get('SEEDALL_WORKERS','3'))) as ex:
    for sid, status, res in ex.map(one, ids):
        det = [p for p, rc, _, _ in res if rc == 1]
        print(sid, status, "DETECTED by " + ",".join(det) if det else ("NOT DETECTED " + str([(p, rc) for p, rc, _, _ in res]) if status == "ok" else ""), flush=True)
        rows.append((sid, status, res))
shutil.rmtree(base, ignore_errors=True)
if os.environ.get("SEEDALL_JSON"):
    json.dump(rows, open(os.environ["SEEDALL_JSON"], "w"))
if not sys.argv[1:]:
    with open(os.path.join(V, "seeded", "REGRESSION.md"), "w") as f:
        f.write("# Seeded changes re-run against /repo HEAD %s (quick tier, scratch worktrees)\n\n| seed | result | first violated assertion |\n|---|---|---|\n" % head)
        for sid, status, res in rows:
            det = [(p, l) for p, rc, _, l in res if rc == 1]
            if status != "ok":
                f.write("| %s | %s | |\n" % (sid, status))
            elif det:
                f.write("| %s | detected by %s | %s |\n" % (sid, det[0][0], det[0][1].replace("|", "/")))
            else:
                f.write("| %s | **not detected** (%s) | |\n" % (sid, ", ".join("%s exit %d" % (p, rc) for p, rc, _, _ in res)))
