package open_game_manager

// Public-API reproduction of known finding C09_REBUILD_ALLREADY against the real
// ready group (no model): a gate rebuilt from the state of a gate that has already
// fired fires a second time, for the same hand, on a repeated ready signal; the
// original ignores the repetition.

import (
	"encoding/json"
	"sync/atomic"
	"testing"
	"time"
)

func TestKF_C09_REBUILD_ALLREADY(t *testing.T) {
	var firedA, firedB int32
	a := NewOpenGameManager(OpenGameOption{Timeout: 1, OnOpenGameReady: func(OpenGameState) { atomic.AddInt32(&firedA, 1) }})
	a.Setup(7, map[string]int{"x": 0, "y": 1})
	if a.Ready("x") != nil || a.Ready("y") != nil {
		t.Fatal("signals refused")
	}
	time.Sleep(300 * time.Millisecond)
	if atomic.LoadInt32(&firedA) != 1 {
		t.Fatalf("original fired %d times", firedA)
	}
	// save / restore through JSON, as a persisted snapshot would be
	raw, _ := json.Marshal(a.GetState())
	var saved OpenGameState
	if err := json.Unmarshal(raw, &saved); err != nil {
		t.Fatal(err)
	}
	b := NewOpenGameManagerFromState(saved, OpenGameOption{Timeout: 1, OnOpenGameReady: func(OpenGameState) { atomic.AddInt32(&firedB, 1) }})
	// the same repeated signal to both
	_ = a.Ready("x")
	_ = b.Ready("x")
	time.Sleep(1500 * time.Millisecond) // past the timeout as well
	fa, fb := atomic.LoadInt32(&firedA), atomic.LoadInt32(&firedB)
	t.Logf("kf_C09_REBUILD_ALLREADY: after a repeated signal original fired %d time(s) in total, rebuilt gate fired %d time(s)", fa, fb)
	if fa == 1 && fb == 1 {
		t.Logf("reproduced: rebuilt gate fired again for hand 7 on a repeated signal; the original did not")
	} else if fa == 1 && fb == 0 {
		t.Errorf("no longer reproduces: rebuilt gate ignored the repeated signal like the original")
	} else {
		t.Errorf("unexpected: original %d rebuilt %d", fa, fb)
	}
}
