#!/bin/bash
# Runs the public-API reproductions of the open known findings against /repo's current tree
# (test files are injected with go test -overlay; /repo is not modified).
set -e
export GOFLAGS=-mod=mod GOPROXY=off GOSUMDB=off GOTOOLCHAIN=local
D=$(cd "$(dirname "$0")" && pwd)
REPO=${VERIF_REPO:-/repo}
T=$(mktemp -d /var/tmp/verif-scen-XXXXXX)
trap 'rm -rf "$T"' EXIT
python3 - "$D" "$REPO" "$T/ov.json" <<'PY'
import json, os, sys
d, repo, out = sys.argv[1:]
rep = {}
for pkg in os.listdir(d):
    p = os.path.join(d, pkg)
    if not os.path.isdir(p): continue
    rel = "." if pkg == "root" else pkg
    for f in os.listdir(p):
        if f.endswith("_test.go"):
            rep[os.path.normpath(os.path.join(repo, rel, "zz_verif_" + f))] = os.path.join(p, f)
json.dump({"Replace": rep}, open(out, "w"))
PY
cd "$REPO"
go test -vet=off -count=1 -v -run 'TestKF_' -overlay "$T/ov.json" ./seat_manager/ ./open_game_manager/ . 2>&1 | grep -v "DEBUG\|^->" | grep -E "^(=== RUN|--- |\s+kf_|ok|FAIL|PASS)|reproduced|no longer"
