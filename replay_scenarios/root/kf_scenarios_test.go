package pokertable

// Public-API history reaching the known finding C03_BATCH_MIXED (see
// /verif/known_findings.json). The test PASSES when the finding reproduces.

import "testing"

func TestKF_C03_BATCH_MIXED(t *testing.T) {
	te := NewTableEngine(NewTableEngineOptions(), WithGameBackend(NewNativeGameBackend()))
	_, err := te.CreateTable(TableSetting{TableID: "t", Meta: TableMeta{TableMaxSeatCount: 4, TableMinPlayerCount: 2, Rule: CompetitionRule_Default, Mode: CompetitionMode_CT},
		Blind: TableBlindState{Level: 1, SB: 10, BB: 20}})
	if err != nil {
		t.Fatal(err)
	}
	for i, id := range []string{"a", "b"} {
		if err := te.PlayerReserve(JoinPlayer{PlayerID: id, RedeemChips: 1000, Seat: i}); err != nil {
			t.Fatal(err)
		}
	}
	// leave a, join x on b's (taken) seat: the join part is refused ...
	_, err = te.UpdateTablePlayers([]JoinPlayer{{PlayerID: "x", RedeemChips: 1000, Seat: 1}}, []string{"a"})
	if err == nil {
		t.Fatalf("expected the batch to be refused (seat 1 is taken)")
	}
	// ... yet the leave part has been applied
	if te.GetTable().FindPlayerIdx("a") >= 0 {
		t.Fatalf("finding C03_BATCH_MIXED no longer reproduces: a is still at the table after the refused batch")
	}
	t.Logf("C03_BATCH_MIXED reproduced: UpdateTablePlayers returned %q and player a is gone", err)
}
