package pokertable

// Public-API history reaching the known finding C02_LEAVE_DEALT_IN: three players are
// dealt into a real hand (native backend), the player behind entry 1 leaves while the
// hand is being played; afterwards entry 1 of the running hand denotes another player and
// the list is shorter than the hand engine's player list. The test PASSES when the
// finding reproduces. (Playing the hand on would make settleGame index out of range in
// the state-updater goroutine; the scenario stops before that.)

import (
	"sync"
	"testing"
	"time"
)

func TestKF_C02_LEAVE_DEALT_IN(t *testing.T) {
	te := NewTableEngine(NewTableEngineOptions(), WithGameBackend(NewNativeGameBackend()))
	var mu sync.Mutex
	var before []string
	playing := make(chan struct{})
	var once sync.Once
	te.OnReadyOpenFirstTableGame(func(competitionID, tableID string, gameCount int, players []*TablePlayerState) {
		participants := map[string]int{}
		for idx, p := range players {
			if p.IsIn {
				participants[p.PlayerID] = idx
			}
		}
		te.SetUpTableGame(gameCount+1, participants)
		for id := range participants {
			go te.PlayerSettlementFinish(id)
		}
	})
	te.OnTableUpdated(func(table *Table) {
		if table.State.Status != TableStateStatus_TableGamePlaying || table.State.GameState == nil {
			return
		}
		once.Do(func() {
			mu.Lock()
			for _, idx := range table.State.GamePlayerIndexes {
				before = append(before, table.State.PlayerStates[idx].PlayerID)
			}
			mu.Unlock()
			close(playing)
		})
	})
	jps := []JoinPlayer{}
	for seat, id := range []string{"Ann", "Bob", "Cid"} {
		jps = append(jps, JoinPlayer{PlayerID: id, RedeemChips: 1000, Seat: seat})
	}
	_, err := te.CreateTable(TableSetting{TableID: "t", Meta: TableMeta{CompetitionID: "c", Rule: CompetitionRule_Default, Mode: CompetitionMode_CT,
		MaxDuration: 3600, TableMaxSeatCount: 9, TableMinPlayerCount: 2, MinChipUnit: 10, ActionTime: 10},
		Blind: TableBlindState{Level: 1, SB: 10, BB: 20}, JoinPlayers: jps})
	if err != nil {
		t.Fatal(err)
	}
	for _, id := range []string{"Ann", "Bob", "Cid"} {
		if err := te.PlayerJoin(id); err != nil {
			t.Fatal(err)
		}
	}
	if err := te.StartTableGame(); err != nil {
		t.Fatal(err)
	}
	select {
	case <-playing:
	case <-time.After(20 * time.Second):
		t.Fatal("no hand was opened")
	}
	defer te.CloseTable()
	mu.Lock()
	ids := append([]string{}, before...)
	mu.Unlock()
	if len(ids) != 3 {
		t.Fatalf("expected three dealt-in players, got %v", ids)
	}
	if err := te.PlayersLeave([]string{ids[1]}); err != nil {
		t.Fatalf("PlayersLeave: %v", err)
	}
	tb := te.GetTable()
	after := []string{}
	for _, idx := range tb.State.GamePlayerIndexes {
		after = append(after, tb.State.PlayerStates[idx].PlayerID)
	}
	enginePlayers := 0
	if tb.State.GameState != nil {
		enginePlayers = len(tb.State.GameState.Players)
	}
	if len(after) == 3 && after[0] == ids[0] && after[2] == ids[2] {
		t.Fatalf("finding C02_LEAVE_DEALT_IN no longer reproduces: entries %v -> %v", ids, after)
	}
	t.Logf("C02_LEAVE_DEALT_IN reproduced: hand entries were %v; after %s left they are %v while the hand engine still plays %d entries (entry 1 now denotes %s, entry 2 nobody)", ids, ids[1], after, enginePlayers, after[1])
}
