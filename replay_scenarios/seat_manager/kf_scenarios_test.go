package seat_manager_test

// Public-API histories that reach the known findings of C04 / C05 (see
// /verif/known_findings.json). Each test PASSES when the finding reproduces
// (it documents the failing history); run with /verif/replay_scenarios/run.sh.

import (
	"testing"

	sm "github.com/weedbox/pokertable/seat_manager"
)

func must(t *testing.T, err error) {
	t.Helper()
	if err != nil {
		t.Fatalf("unexpected error: %v", err)
	}
}

func threeHanded(t *testing.T, seats int) sm.SeatManager {
	m := sm.NewSeatManager(seats, sm.Rule_Default)
	must(t, m.AssignSeats(map[string]int{"a": 0, "b": 2, "c": 4}))
	must(t, m.JoinPlayers([]string{"a", "b", "c"}))
	must(t, m.InitPositions(false)) // BB=0, SB=4, D=2
	must(t, m.RotatePositions())    // D=4 SB=0 BB=2
	must(t, m.RotatePositions())    // D=0 SB=2 BB=4
	if m.CurrentDealerSeatID() != 0 || m.CurrentSBSeatID() != 2 || m.CurrentBBSeatID() != 4 {
		t.Fatalf("setup: D/SB/BB = %d/%d/%d", m.CurrentDealerSeatID(), m.CurrentSBSeatID(), m.CurrentBBSeatID())
	}
	return m
}

// C04_R1: rotation refused although two seated-in players have chips.
func TestKF_C04_R1(t *testing.T) {
	m := threeHanded(t, 9)
	must(t, m.AssignSeats(map[string]int{"x": 3})) // newcomer between SB(2) and BB(4): waits
	must(t, m.JoinPlayers([]string{"x"}))
	must(t, m.UpdatePlayerHasChips("b", false)) // both blinds bust
	must(t, m.UpdatePlayerHasChips("c", false))
	err := m.RotatePositions()
	if err == nil {
		t.Fatalf("finding C04_R1 no longer reproduces: rotation succeeded (D/SB/BB %d/%d/%d)", m.CurrentDealerSeatID(), m.CurrentSBSeatID(), m.CurrentBBSeatID())
	}
	t.Logf("C04_R1 reproduced: a@0 and x@3 are seated-in with chips, RotatePositions = %v", err)
}

// C04_R2: dealer seat equals big-blind seat with three dealt in.
func TestKF_C04_R2(t *testing.T) {
	m := threeHanded(t, 9)
	must(t, m.AssignSeats(map[string]int{"x": 3}))
	must(t, m.JoinPlayers([]string{"x"}))
	must(t, m.RemoveSeats([]string{"a"})) // the dealer leaves
	must(t, m.RotatePositions())
	d, s, b := m.CurrentDealerSeatID(), m.CurrentSBSeatID(), m.CurrentBBSeatID()
	active := 0
	for _, id := range []string{"b", "c", "x"} {
		if ok, _ := m.IsPlayerActive(id); ok {
			active++
		}
	}
	if active < 3 || d != b {
		t.Fatalf("finding C04_R2 no longer reproduces: active=%d D/SB/BB=%d/%d/%d", active, d, s, b)
	}
	t.Logf("C04_R2 reproduced: %d dealt in, D/SB/BB = %d/%d/%d (dealer seat = big-blind seat)", active, d, s, b)
}
