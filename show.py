import json,sys
for r in json.load(open(sys.argv[1])):
    print(r['job']['harness'], r['job']['cfg'], r['status'], r.get('error'))
    vs=r['vcs'] or []
    n=int(sys.argv[2]) if len(sys.argv)>2 else 12
    shown=0
    for v in vs:
        if v['Result'] not in ('unsat','trivial') or v['KF']:
            if v['Class']=='reach' and v['Result']=='sat': continue
            print('  ',v['Class'], v['Result'], v['KF'], round(v['Ms']), v['Size'], v['Label'], v['Pos']); shown+=1
            if shown>=n: break
    print('  vcs',len(vs),'trivial',sum(1 for v in vs if v['Trivial']), {k:r[k] for k in ['blocks','instrs','terms','queries','feasibility_queries','solver_ms','wall_ms','max_query_ms']})
