// Sequential model of github.com/weedbox/timebank used by the verification
// harnesses (installed through an overlay on the module cache; the real file is
// untouched).  Same API; timers never run by themselves:
//   - immediate mode (default): NewTask runs fn(false) before returning — the
//     callers in pokertable that use it (tableEngine.delay) block until the
//     callback has run anyway, so only the passage of time is abstracted;
//   - deferred mode (ModelSetDeferred(true)): the task stays armed until the
//     harness fires it (ModelFire) or it is cancelled (callback(true), as the
//     real implementation does through its context).
package timebank

import (
	"errors"
	"time"
)

var (
	ErrInvalidParameters = errors.New("timebank: invalid parameters")
	ErrInvalidDeadline   = errors.New("timebank: invalid deadline")
)

const (
	DefaultTimeout time.Duration = 15 * time.Second
)

type TimeBank struct {
	isRunning bool
	callback  func(bool)
	duration  time.Duration
	deferred  bool
	armedN    int // number of tasks armed so far (ghost)
	firedN    int // number of callbacks run with isCancelled=false (ghost)
	before    func() // harness hook: what the environment does while the next timer is running
}

func NewTimeBank() *TimeBank {
	return &TimeBank{callback: func(bool) {}}
}

func (tb *TimeBank) Cancel() {
	if tb.isRunning {
		tb.isRunning = false
		tb.callback(true)
	}
}

func (tb *TimeBank) NewTask(duration time.Duration, fn func(isCancelled bool)) error {
	if fn == nil {
		return ErrInvalidParameters
	}
	tb.Cancel()
	if duration == 0 || !tb.deferred {
		tb.callback = fn
		tb.duration = duration
		tb.armedN++
		tb.firedN++
		if duration != 0 && tb.before != nil {
			// the interval is not empty: the environment acts while the timer runs
			f := tb.before
			tb.before = nil
			f()
		}
		fn(false)
		return nil
	}
	tb.isRunning = true
	tb.callback = fn
	tb.duration = duration
	tb.armedN++
	return nil
}

func (tb *TimeBank) Extend(duration time.Duration) bool {
	if !tb.isRunning {
		return false
	}
	tb.duration += duration
	return true
}

func (tb *TimeBank) NewTaskWithDeadline(deadline time.Time, fn func(isCancelled bool)) error {
	return ErrInvalidDeadline
}

// ---- model controls (harness only) ----

func (tb *TimeBank) ModelSetDeferred(d bool) { tb.deferred = d }

// ModelDuringNextInterval: f runs after the next (non-zero) timer was armed and before it fires.
func (tb *TimeBank) ModelDuringNextInterval(f func()) { tb.before = f }
func (tb *TimeBank) ModelArmed() bool         { return tb.isRunning }
func (tb *TimeBank) ModelDuration() time.Duration {
	return tb.duration
}
func (tb *TimeBank) ModelArmedCount() int { return tb.armedN }
func (tb *TimeBank) ModelFiredCount() int { return tb.firedN }

// ModelFire lets the armed timer expire.
func (tb *TimeBank) ModelFire() bool {
	if !tb.isRunning {
		return false
	}
	tb.isRunning = false
	tb.firedN++
	tb.callback(false)
	return true
}
