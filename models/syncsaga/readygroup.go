// Sequential model of github.com/weedbox/syncsaga.ReadyGroup used by the
// verification harnesses (installed through an overlay on the module cache).
// Same API.  What the real implementation does in goroutines is made explicit:
//   - eager mode (default): a Ready/Discard is processed before the call
//     returns and a completion callback runs at once (zero latency);
//   - stepped mode (ModelSetStepped(true)): signals are queued and the harness
//     decides when one is processed (ModelProcessOne), when the timeout fires
//     (ModelFireTimeout) and when a due completion callback runs
//     (ModelRunCompletion).
// Contract taken from the real code: queued signals are handled in FIFO order;
// a signal for an unknown participant changes nothing; the group completes at
// most once per Start, when its validator holds after a processed signal;
// completion cancels the timer; Ready before Start / after Stop is ignored.
// Not modelled: signals that were queued but unprocessed when Stop is called
// are dropped (the real goroutine may still drain them).
package syncsaga

type ReadyGroupOpt func(*ReadyGroup)
type ReadyGroupCallback func(*ReadyGroup)
type ReadyGroupValidator func(*ReadyGroup) bool

type ReadyGroupAction struct {
	ParticipantID int64
	IsReady       bool
}

type ReadyGroup struct {
	participants    map[int64]bool
	timeoutInterval int
	isCompleted     bool
	started         bool
	timerArmed      bool
	stepped         bool
	queue           []ReadyGroupAction
	completionDue   bool
	validator       ReadyGroupValidator
	onUpdated       ReadyGroupCallback
	onCompleted     ReadyGroupCallback
	onTimeout       ReadyGroupCallback

	// ghost counters
	startN      int
	completedN  int
	timeoutN    int
	armedWith   int
	processedN  int
}

func WithTimeout(timeout int, callback ReadyGroupCallback) ReadyGroupOpt {
	return func(rg *ReadyGroup) {
		rg.timeoutInterval = timeout
		if callback != nil {
			rg.onTimeout = callback
		}
	}
}

func WithValidator(v ReadyGroupValidator) ReadyGroupOpt {
	return func(rg *ReadyGroup) { rg.validator = v }
}

func WithUpdatedCallback(callback ReadyGroupCallback) ReadyGroupOpt {
	return func(rg *ReadyGroup) { rg.onUpdated = callback }
}

func WithCompletedCallback(callback ReadyGroupCallback) ReadyGroupOpt {
	return func(rg *ReadyGroup) { rg.onCompleted = callback }
}

func NewReadyGroup(opts ...ReadyGroupOpt) *ReadyGroup {
	rg := &ReadyGroup{
		participants: make(map[int64]bool),
		validator:    func(rg *ReadyGroup) bool { return rg.defValidate() },
		onUpdated:    func(*ReadyGroup) {},
		onCompleted:  func(*ReadyGroup) {},
		onTimeout:    func(*ReadyGroup) {},
	}
	for _, o := range opts {
		o(rg)
	}
	return rg
}

func (rg *ReadyGroup) defValidate() bool {
	for _, ready := range rg.participants {
		if !ready {
			return false
		}
	}
	return true
}

func (rg *ReadyGroup) SetTimeoutInterval(interval int)      { rg.timeoutInterval = interval }
func (rg *ReadyGroup) SetValidator(fn ReadyGroupValidator)  { rg.validator = fn }
func (rg *ReadyGroup) OnTimeout(fn ReadyGroupCallback)      { rg.onTimeout = fn }
func (rg *ReadyGroup) OnUpdated(fn ReadyGroupCallback)      { rg.onUpdated = fn }
func (rg *ReadyGroup) OnCompleted(fn ReadyGroupCallback)    { rg.onCompleted = fn }

func (rg *ReadyGroup) Add(participantID int64, isReady bool) {
	rg.participants[participantID] = isReady
}

func (rg *ReadyGroup) ResetParticipants() {
	rg.participants = make(map[int64]bool)
}

func (rg *ReadyGroup) Start() {
	rg.Stop()
	rg.started = true
	rg.startN++
	if rg.timeoutInterval == 0 {
		return
	}
	rg.timerArmed = true
	rg.armedWith = rg.timeoutInterval
}

func (rg *ReadyGroup) Stop() {
	rg.isCompleted = false
	rg.started = false
	rg.queue = nil
	rg.timerArmed = false
	rg.completionDue = false
}

func (rg *ReadyGroup) signal(participantID int64, isReady bool) {
	if !rg.started {
		return
	}
	if rg.stepped {
		rg.queue = append(rg.queue, ReadyGroupAction{ParticipantID: participantID, IsReady: isReady})
		return
	}
	rg.process(ReadyGroupAction{ParticipantID: participantID, IsReady: isReady})
}

func (rg *ReadyGroup) Ready(participantID int64)   { rg.signal(participantID, true) }
func (rg *ReadyGroup) Discard(participantID int64) { rg.signal(participantID, false) }

func (rg *ReadyGroup) process(a ReadyGroupAction) {
	rg.processedN++
	if _, ok := rg.participants[a.ParticipantID]; ok {
		rg.participants[a.ParticipantID] = a.IsReady
	}
	if rg.validator(rg) {
		rg.Done()
	}
	rg.onUpdated(rg)
}

func (rg *ReadyGroup) Done() {
	if rg.isCompleted {
		return
	}
	rg.isCompleted = true
	if rg.timeoutInterval > 0 {
		rg.timerArmed = false
	}
	if rg.stepped {
		rg.completionDue = true
		return
	}
	rg.completedN++
	rg.onCompleted(rg)
}

func (rg *ReadyGroup) GetParticipantStates() map[int64]bool {
	states := make(map[int64]bool)
	for k, v := range rg.participants {
		states[k] = v
	}
	return states
}

func (rg *ReadyGroup) Wait() {}

// ---- model controls (harness only) ----

func (rg *ReadyGroup) ModelSetStepped(s bool) { rg.stepped = s }
func (rg *ReadyGroup) ModelStarted() bool      { return rg.started }
func (rg *ReadyGroup) ModelTimerArmed() bool   { return rg.timerArmed }
func (rg *ReadyGroup) ModelArmedWith() int     { return rg.armedWith }
func (rg *ReadyGroup) ModelQueueLen() int      { return len(rg.queue) }
func (rg *ReadyGroup) ModelCompletionDue() bool { return rg.completionDue }
func (rg *ReadyGroup) ModelCompletedCount() int { return rg.completedN }
func (rg *ReadyGroup) ModelStartCount() int     { return rg.startN }
func (rg *ReadyGroup) ModelTimeoutCount() int   { return rg.timeoutN }
func (rg *ReadyGroup) ModelIsCompleted() bool   { return rg.isCompleted }
func (rg *ReadyGroup) ModelTimeoutInterval() int { return rg.timeoutInterval }

// ModelProcessOne handles the oldest queued signal (stepped mode).
func (rg *ReadyGroup) ModelProcessOne() bool {
	if len(rg.queue) == 0 {
		return false
	}
	a := rg.queue[0]
	rg.queue = rg.queue[1:]
	rg.process(a)
	return true
}

// ModelFireTimeout lets the armed timeout expire.
func (rg *ReadyGroup) ModelFireTimeout() bool {
	if !rg.timerArmed {
		return false
	}
	rg.timerArmed = false
	rg.timeoutN++
	rg.onTimeout(rg)
	return true
}

// ModelRunCompletion runs a completion callback that became due (stepped mode).
func (rg *ReadyGroup) ModelRunCompletion() bool {
	if !rg.completionDue {
		return false
	}
	rg.completionDue = false
	rg.completedN++
	rg.onCompleted(rg)
	return true
}
