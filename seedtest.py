#!/usr/bin/env python3
"""seedtest.py <seed-id> <worktree> <demo-pkg-dir> <property> [more properties...]
Confirms a seeded change (demo fails with it / passes without it, module builds, fast suites pass),
stores it under /verif/seeded/<seed-id>/, then runs the given checks (quick) against /repo with the
patch applied and reverts /repo."""
import sys, os, subprocess, json, shutil, time
ENV = dict(os.environ, GOFLAGS="-mod=mod", GOPROXY="off", GOSUMDB="off", GOTOOLCHAIN="local")
sid, wt, demodir = sys.argv[1], sys.argv[2], sys.argv[3]
props = sys.argv[4:]
out = "/verif/seeded/" + sid
os.makedirs(out, exist_ok=True)
def sh(cmd, cwd, t=900):
    r = subprocess.run(cmd, shell=True, cwd=cwd, env=ENV, capture_output=True, text=True, timeout=t)
    return r.returncode, (r.stdout + r.stderr)
patch = os.path.join(wt, "patch.diff")
meta = {"seed": sid, "breaks_property": props[0], "checked_with": props, "ran": []}
# 1. demo with / without the change in the scratch worktree
rc, _ = sh("git apply -R --check patch.diff", wt)
applied = rc == 0
if not applied:
    sh("git apply patch.diff", wt)
rc_with, o_with = sh("go build ./... && go test -vet=off -count=1 -run '^TestSeedDemo' ./%s 2>&1 | grep -v 'DEBUG\\|^->' | tail -15" % demodir, wt)
demo_fails_with = ("FAIL" in o_with) and ("build failed" not in o_with)
sh("git apply -R patch.diff", wt)
rc_wo, o_wo = sh("go test -vet=off -count=1 -run '^TestSeedDemo' ./%s 2>&1 | grep -v 'DEBUG\\|^->' | tail -8" % demodir, wt)
demo_passes_without = ("ok " in o_wo) and ("FAIL" not in o_wo)
sh("git apply patch.diff", wt)
rc_fast, o_fast = sh("go build ./... && go test -vet=off -count=1 -skip TestSeedDemo ./seat_manager/ ./open_game_manager/ 2>&1 | grep -v 'DEBUG\\|^->' | tail -4", wt)
fast_ok = "FAIL" not in o_fast and rc_fast == 0
meta["ran"].append({"cmd": "go test -run TestSeedDemo ./%s (with change)" % demodir, "fails": demo_fails_with})
meta["ran"].append({"cmd": "go test -run TestSeedDemo ./%s (without change)" % demodir, "passes": demo_passes_without})
meta["ran"].append({"cmd": "go build ./... && go test ./seat_manager/ ./open_game_manager/ (with change)", "passes": fast_ok})
print("demo fails with change:", demo_fails_with, "| passes without:", demo_passes_without, "| fast suites pass with change:", fast_ok)
if not demo_fails_with:
    print(o_with[-1500:])
if not demo_passes_without:
    print(o_wo[-1500:])
shutil.copy(patch, os.path.join(out, "patch.diff"))
for f in os.listdir(os.path.join(wt, demodir)):
    if f.startswith("zz_seed_demo"):
        shutil.copy(os.path.join(wt, demodir, f), os.path.join(out, f + ".txt" if not f.endswith(".go") else f.replace(".go", ".go.txt")))
if os.path.exists(os.path.join(wt, "NOTES.md")):
    shutil.copy(os.path.join(wt, "NOTES.md"), os.path.join(out, "NOTES.md"))
# 2. run the checks against /repo with the patch applied
USE_WT = os.environ.get("SEED_USE_WT") == "1"   # first pass: run the checks against the scratch worktree (patch applied there), /repo untouched
if not USE_WT:
    rc, o = sh("git -C /repo status --short", "/repo")
    if o.strip():
        print("/repo is not clean, aborting:", o); sys.exit(2)
    rc, o = sh("git -C /repo apply %s" % os.path.join(out, "patch.diff"), "/repo")
    if rc != 0:
        print("patch does not apply to /repo:", o); sys.exit(2)
results = {}
try:
    for p in props:
        t0 = time.time()
        rc, o = sh(("VERIF_REPO=%s VERIF_EVIDENCE_DIR=/var/tmp/seed-ev-%s " % (wt, sid) if USE_WT else "") + "./check %s quick" % p, "/verif", 3000)
        lines = [l for l in o.splitlines() if l.startswith(("VIOLATION", "MACHINERY", "KNOWN-FINDING")) or l.startswith("  harness")]
        results[p] = {"exit": rc, "seconds": round(time.time() - t0, 1), "lines": lines[:8]}
        print(p, "exit", rc, "%.0fs" % (time.time() - t0))
        for l in lines[:6]:
            print("   ", l[:260])
finally:
    if not USE_WT:
        sh("git -C /repo checkout -- .", "/repo")
        # evidence files were rewritten by runs on a modified tree: restore the committed ones
        sh("git checkout -- evidence", "/verif")
    else:
        shutil.rmtree("/var/tmp/seed-ev-%s" % sid, ignore_errors=True)
meta["checks_run_against"] = "scratch worktree with the change applied (VERIF_REPO)" if USE_WT else "/repo with the patch applied, reverted afterwards"
meta["check_results"] = results
meta["detected_by"] = [p for p, r in results.items() if r["exit"] == 1]
json.dump(meta, open(os.path.join(out, "meta.json"), "w"), indent=1)
print("detected by:", meta["detected_by"])
